#!/usr/bin/env python3
"""Regenerates MANIFEST.json from the table below (kept in one place so the
manifest is always valid while checks are being added)."""
import json

CHECKS = {
 "C01": dict(
   level="exploration",
   text="Round-trip oracle over generated value-tree sequences on all 4 protocols x 3 buffer kinds with one writer/one reader instance, position monitor and fresh-reader comparison; held on the executions observed (quick 2e4 sequences, thorough 1.5e6 + release build + Miri subset).",
   design="6/C01",
   note="Trusted: harness value trees and generators; rustc. Doubles compared by bits. Empty-map key/value types not compared on compact.",
   technique="runtime monitoring: value interpreter + round-trip/position oracle, supervised worker processes"),
}

NOT_YET = "check not built yet (work in progress; see DESIGN.md section 6 for the planned monitor)"
ALL = ["C%02d" % i for i in range(1, 21)]

def main():
    checks = []
    for pid in ALL:
        if pid not in CHECKS: continue
        c = CHECKS[pid]
        checks.append({
            "property_id": pid,
            "quick_cmd": f"./check {pid} --tier quick",
            "thorough_cmd": f"./check {pid} --tier thorough",
            "evidence_file": f"/verif/evidence/{pid}.json",
            "replay_cmd_template": f"./check {pid} --replay {{path}}",
            "engine": c.get("engine", "harness"),
            "level_claimed": {"category": c["level"], "text": c["text"], "design_ref": c["design"]},
            "level_note": c["note"],
            "technique": c["technique"],
        })
    m = {
        "version": 1,
        "setup_cmd": "./setup.sh",
        "hooks": {
            "guard": "--cfg pilota_verif",
            "enable": "RUSTFLAGS='--cfg pilota_verif' when building /verif/harness (path dependencies on /repo)",
            "baseline_off_cmd": "cd /repo && cargo test --workspace --no-fail-fast --offline",
            "source_commits": [],
            "add_only": True,
        },
        "engines": [
            {"name": "harness", "path": "/verif/harness", "serves_properties": sorted(CHECKS.keys()),
             "kind_free_text": "cargo workspace (refmodel: independent reference codecs + generators; monitors: counting allocator, scripted AsyncRead/executor, panic capture, process supervisor; rtcheck: runtime checks)"},
        ],
        "checks": checks,
        "notes": "Runtime monitoring and sanitizers only. Verdicts are three-valued: exit 0 held-on-observed, exit 1 VIOLATION, exit 3 INCONCLUSIVE (harness error / coverage floor not met). Known findings: /verif/known_findings.txt.",
        "not_applicable": [{"property_id": p, "reason": NOT_YET} for p in ALL if p not in CHECKS],
    }
    json.dump(m, open('/verif/MANIFEST.json', 'w'), indent=1)
    print("wrote MANIFEST.json with", len(checks), "checks")

if __name__ == "__main__":
    main()
