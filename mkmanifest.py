#!/usr/bin/env python3
"""Regenerates MANIFEST.json from the table below (kept in one place so the
manifest is always valid while checks are being added)."""
import json

CHECKS = {
 "C01": dict(
   level="exploration",
   text="Round-trip oracle over generated value-tree sequences on all 4 protocols x 3 buffer kinds with one writer/one reader instance, position monitor and fresh-reader comparison; held on the executions observed (quick 2e4 sequences, thorough 1.5e6 + release build + Miri subset).",
   design="6/C01",
   note="Trusted: harness value trees and generators; rustc. Doubles compared by bits. Empty-map key/value types not compared on compact.",
   technique="runtime monitoring: value interpreter + round-trip/position oracle, supervised worker processes"),
 "C03": dict(
   level="exploration",
   text="Differential conformance against independent reference codecs written from the Apache binary/compact spec texts, both directions, every legal alternative form, envelopes, ApplicationException; exhaustive sub-spaces: all i8, all i16 (value and field id), all 256 type bytes x 5 positions, all 16 compact nibbles x 5 positions, message type codes.",
   design="6/C03",
   note="Trusted: the reference codecs (cross-checked against hand-computed spec vectors and against each other). Compact element-bool 0 and bool element-type nibble 1 vs 2 are not judged.",
   technique="runtime monitoring: differential oracle vs independent reference codec, exhaustive small tables"),
 "C04": dict(
   level="exploration",
   text="size()==bytes-written oracle over generated value trees for every hand-written length protocol in three usage patterns (fresh instance; same instance sizes then writes; value k+1 sized after value k written), all buffer kinds.",
   design="6/C04",
   note="Runtime (hand-written) half; the generated-type half (Message::size vs encode) is added by the generated-code pipeline when registered. Trusted: byte counting at the flattened buffer.",
   technique="runtime monitoring: length walk mirrored call-for-call against the write walk"),
 "C07": dict(
   level="exploration",
   text="skip() oracle: reported count, position, following value and untouched trailing noise, on reference-encoded struct{1:x,2:y}++noise for every wire type, container class, nesting level 1..80 on a 2 MiB stack; 4 sync + 3 async protocols; supervised workers so a stack overflow is an observation.",
   design="6/C07",
   note="Trusted: reference encoder for lengths. Unchecked iterative skipper: either exact skip or DepthLimit accepted beyond level 64.",
   technique="runtime monitoring: position monitor + reference lengths, fixed-stack threads, supervised processes"),
 "C09": dict(
   level="fault_enumeration",
   text="Complete enumeration, per base message, of truncations, single-bit flips, length/count boundary overwrites and type-code replacements (plus unstructured input) fed to the safe decoders (read walk, skip, read_message_begin, ApplicationException::decode; sync+async; binary, binary_le, compact) under a panic monitor, counting allocator, CPU meter, poll-budget executor and process supervisor; strict prefixes must be rejected.",
   design="6/C09",
   note="Runtime (hand-written) half; generated decoders are added by the generated-code pipeline when registered. Bounds: alloc <= 64 KiB + 256 x len, CPU <= 20 ms + 50 us/byte, polls <= 16 x len + 256. Unchecked reader excluded by its contract.",
   technique="runtime monitoring: fault enumeration under allocator/panic/CPU/poll monitors in supervised workers"),
 "C11": dict(
   level="exploration",
   text="Differential oracle unchecked vs checked binary codec inside the documented contract (exact-size window from the checked size; complete reference-encoded input): identical bytes, identical values and consumed counts, identical skip counts for a partial reader; guard regions around the window; dev-profile ub_checks abort => supervised worker death => violation.",
   design="6/C11",
   note="Runtime half; generated types with keep_unknown_fields and the ASan/Miri layers are added in later commits. Guard regions cannot see out-of-window reads; ub_checks cover get_unchecked only.",
   technique="runtime monitoring: differential oracle + guard regions + std ub_checks, supervised processes"),
 "C12": dict(
   level="exploration",
   text="Sync-vs-async differential under a scripted AsyncRead and a poll-counting executor: value/error agreement, bytes handed out == bytes consumed in memory (sentinel stays unread), poll bound; exhaustive one- and two-split schedules for messages <= 48 bytes; faulted inputs; partial reader drives the async skipper on every wire type.",
   design="6/C12",
   note="Runtime half (interpreter over the async protocols); generated decode_async added by the generated-code pipeline. The schedule space is exhaustive only for <= 2 splits of short messages.",
   technique="runtime monitoring: deterministic executor + scripted stream, differential oracle, exhaustive small schedule space"),
}

NOT_YET = "check not built yet (work in progress; see DESIGN.md section 6 for the planned monitor)"
ALL = ["C%02d" % i for i in range(1, 21)]

def main():
    checks = []
    for pid in ALL:
        if pid not in CHECKS: continue
        c = CHECKS[pid]
        checks.append({
            "property_id": pid,
            "quick_cmd": f"./check {pid} --tier quick",
            "thorough_cmd": f"./check {pid} --tier thorough",
            "evidence_file": f"/verif/evidence/{pid}.json",
            "replay_cmd_template": f"./check {pid} --replay {{path}}",
            "engine": c.get("engine", "harness"),
            "level_claimed": {"category": c["level"], "text": c["text"], "design_ref": c["design"]},
            "level_note": c["note"],
            "technique": c["technique"],
        })
    m = {
        "version": 1,
        "setup_cmd": "./setup.sh",
        "hooks": {
            "guard": "--cfg pilota_verif",
            "enable": "RUSTFLAGS='--cfg pilota_verif' when building /verif/harness (path dependencies on /repo)",
            "baseline_off_cmd": "cd /repo && cargo test --workspace --no-fail-fast --offline",
            "source_commits": [],
            "add_only": True,
        },
        "engines": [
            {"name": "harness", "path": "/verif/harness", "serves_properties": sorted(CHECKS.keys()),
             "kind_free_text": "cargo workspace (refmodel: independent reference codecs + generators; monitors: counting allocator, scripted AsyncRead/executor, panic capture, process supervisor; rtcheck: runtime checks)"},
        ],
        "checks": checks,
        "notes": "Runtime monitoring and sanitizers only. Verdicts are three-valued: exit 0 held-on-observed, exit 1 VIOLATION, exit 3 INCONCLUSIVE (harness error / coverage floor not met). Known findings: /verif/known_findings.txt.",
        "not_applicable": [{"property_id": p, "reason": NOT_YET} for p in ALL if p not in CHECKS],
    }
    json.dump(m, open('/verif/MANIFEST.json', 'w'), indent=1)
    print("wrote MANIFEST.json with", len(checks), "checks")

if __name__ == "__main__":
    main()
