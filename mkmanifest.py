#!/usr/bin/env python3
"""Regenerates MANIFEST.json from the table below (kept in one place so the
manifest is always valid while checks are being added)."""
import json

CHECKS = {
 "C01": dict(
   level="exploration",
   text="Round-trip oracle over generated value-tree sequences on all 4 protocols x 3 buffer kinds with one writer/one reader instance, position monitor and fresh-reader comparison; held on the executions observed (quick 2e4 sequences, thorough 1.5e6 + release build + Miri subset).",
   design="6/C01",
   note="Trusted: harness value trees and generators; rustc. Doubles compared by bits. Empty-map key/value types not compared on compact.",
   technique="runtime monitoring: value interpreter + round-trip/position oracle, supervised worker processes"),
 "C03": dict(
   level="exploration",
   text="Differential conformance against independent reference codecs written from the Apache binary/compact spec texts, both directions, every legal alternative form, envelopes, ApplicationException; exhaustive sub-spaces: all i8, all i16 (value and field id), all 256 type bytes x 5 positions, all 16 compact nibbles x 5 positions, message type codes.",
   design="6/C03",
   note="Trusted: the reference codecs (cross-checked against hand-computed spec vectors and against each other). Compact element-bool 0 and bool element-type nibble 1 vs 2 are not judged.",
   technique="runtime monitoring: differential oracle vs independent reference codec, exhaustive small tables"),
 "C04": dict(
   level="exploration",
   text="size()==bytes-written oracle over generated value trees for every hand-written length protocol in three usage patterns (fresh instance; same instance sizes then writes; value k+1 sized after value k written), all buffer kinds; message envelopes (message_begin_len + message_end_len vs bytes written) over names x sequence ids x message types.",
   design="6/C04",
   note="Hand-written length protocols (value interpreter) + generated types (Message::size vs Message::encode on all corpora/configurations, incl. values carrying retained unknown fields). Trusted: byte counting at the flattened buffer.",
   technique="runtime monitoring: length walk mirrored call-for-call against the write walk"),
 "C07": dict(
   level="exploration",
   text="skip() oracle: reported count, position, following value and untouched trailing noise, on reference-encoded struct{1:x,2:y}++noise for every wire type, container class, nesting level 1..80 on a 2 MiB stack; 4 sync + 3 async protocols; supervised workers so a stack overflow is an observation.",
   design="6/C07",
   note="Trusted: reference encoder for lengths. Unchecked iterative skipper: either exact skip or DepthLimit accepted beyond level 64.",
   technique="runtime monitoring: position monitor + reference lengths, fixed-stack threads, supervised processes"),
 "C09": dict(
   level="fault_enumeration",
   text="Complete enumeration, per base message, of truncations, single-bit flips, length/count boundary overwrites and type-code replacements (plus unstructured input) fed to the safe decoders (read walk, skip, read_message_begin, ApplicationException::decode; sync+async; binary, binary_le, compact) under a panic monitor, counting allocator, CPU meter, poll-budget executor and process supervisor; strict prefixes must be rejected.",
   design="6/C09",
   note="Hand-written decoders + every generated type's decode/decode_async (2 MiB stack, F = max(256, 4 x the largest size_of among the types of the corpus)). Bounds: alloc <= 64 KiB + 256 x len, CPU <= 20 ms + 50 us/byte, polls <= 16 x len + 256. Unchecked reader excluded by its contract.",
   technique="runtime monitoring: fault enumeration under allocator/panic/CPU/poll monitors in supervised workers"),
 "C11": dict(
   level="exploration",
   text="Differential oracle unchecked vs checked binary codec inside the documented contract (exact-size window sized by the unchecked writer's own length protocol, which must agree with the checked one; complete reference-encoded input): identical bytes, identical values and consumed counts, identical skip counts for a partial reader; guard regions around the window; dev-profile ub_checks abort => supervised worker death => violation.",
   design="6/C11",
   note="Hand-written codec + generated types (decode equality/consumed bytes, encode into guarded exact-size windows, half of the values carry unknown fields skipped or retained). ASan/Miri layers (hand-written codec and the generated keep-mode code of corpus q0): thorough tier. Guard regions cannot see out-of-window reads; ub_checks cover get_unchecked only.",
   technique="runtime monitoring: differential oracle + guard regions + std ub_checks, supervised processes"),
 "C12": dict(
   level="exploration",
   text="Sync-vs-async differential under a scripted AsyncRead and a poll-counting executor: value/error agreement, bytes handed out == bytes consumed in memory (sentinel stays unread), poll bound; exhaustive one- and two-split schedules for messages <= 48 bytes; faulted inputs; partial reader drives the async skipper on every wire type.",
   design="6/C12",
   note="Interpreter over the async protocols + generated decode_async of every type. The schedule space is exhaustive only for <= 2 splits of short messages.",
   technique="runtime monitoring: deterministic executor + scripted stream, differential oracle, exhaustive small schedule space"),
 "C02": dict(
   level="exploration",
   text="Bytes-only differential oracle over programs x inputs: G_thrift corpora compiled by pilota-build (child process) in {single, split, keep_unknown_fields}; every declared/synthesised type driven through Message::{decode,encode,decode_async,size} with reference-encoded schema-directed values on 4 protocols; checked binary is the pivot; typed equality and async==sync on top.",
   design="6/C02",
   note="Trusted: reference codecs, the schema model (defaults/requiredness), G_thrift. Quick = 2 fixed corpora (values vary with VERIF_SEED); thorough adds seed-derived corpora. NaN/-0.0 doubles are not generated for typed values.",
   technique="runtime monitoring: differential oracle (reference codec + schema model) over generated programs"),
 "C08": dict(
   level="exploration",
   text="Executable tolerant-reader statement: writer-schema evolution operators applied to schema-directed values, expected outcome (Ok(projection) / Err) computed by the schema model, compared with what every generated decoder does on 4 protocols; metamorphic strip-unknown check.",
   design="6/C08",
   note="Retyping is applied to fields and union variants, not container element types; a required field WITH an IDL default that is absent may fail or fall back (not judged); union values carrying several fields that are not all known variants are not judged.",
   technique="runtime monitoring: schema-evolution generator + projection oracle"),
 "C13": dict(
   level="exploration",
   text="Retention oracle on keep_unknown_fields builds: unknown fields of every wire type at every position (top, nested struct, list element, map value; method-argument types), decode with checked+unchecked binary, re-encode with both, reference-decode, compare id-keyed tree with the original (defaults filled, unknown fields verbatim); every 4th case has no unknown field.",
   design="6/C13",
   note="Argument/result structs synthesised for methods are not 'types in the file': unknown fields are placed inside the declared types they carry. Set elements and map keys are not given unknown fields.",
   technique="runtime monitoring: differential oracle vs reference codec on retained bytes"),
 "C19": dict(
   level="fault_enumeration",
   text="Leak oracle (per-thread counting allocator): for every failing input of the fault enumeration (every truncation point, bit flips, length/count/type corruptions) of every generated type, binary+compact, sync+async: live bytes must not grow between repeated decode+drop cycles (input buffer included).",
   design="6/C19",
   note="Thrift generated types (binary+compact, sync+async) and protobuf generated messages. Growth between repetitions (after a warm-up) is the observable; LSan/valgrind second opinion in the thorough tier.",
   technique="runtime monitoring: counting allocator over enumerated failing decodes, supervised workers"),
 "C20": dict(
   level="exploration",
   text="Default oracle over programs: for every generated struct/exception/argument struct of the corpora (incl. a defaults-heavy corpus) reference-decode(encode(T::default())) equals the default computed by the schema model; every field id has its declared wire type; decode(empty struct)==default() when it succeeds.",
   design="6/C20",
   note="Trusted: literal evaluation in the schema model (bool/double from int, enum by name/number, const by reference, list/set/map/[] literals). Struct-literal defaults are not generated yet.",
   technique="runtime monitoring: schema-model oracle over generated programs"),
 "C15": dict(
   level="exploration",
   text="Print-then-parse oracle: documents built from the parser's own descriptor types, printed in a canonical and two random layouts (whitespace, three comment styles, separators , ; none, quote styles, hex ints, spaced paths), half of the identifiers keyword-prefixed; File::parse must consume everything and return a Debug-identical document for every layout.",
   design="6/C15",
   note="Trusted: the printer (layout choices restricted to what the IDL leaves free; tokens are never merged). Documents are in the parser's normal form (function arguments Required/Optional).",
   technique="runtime monitoring: generator + printer + round-trip oracle over layouts"),
 "C16": dict(
   level="exploration",
   text="Totality monitor for File::parse: random UTF-8/keyword soup up to 64 KiB, token-level mutants, every numeric token inflated to 11/20/40/400 digits, unterminated comments/quotes, nesting of types/literals/minus runs at depths up to 64 (judged) and beyond (logged); each parse on a 2 MiB-stack thread in a supervised worker; panics and process deaths are observations.",
   design="6/C16",
   note="Nesting deeper than 64 is outside the statement's stack clause: stack overflows there are counted in the evidence, not judged.",
   technique="runtime monitoring: panic capture + fixed-stack threads + process supervisor over mutated inputs"),
 "C14": dict(
   level="exploration",
   text="Builder-as-child-process monitor over programs x configurations: hostile-named G_thrift documents (+ fixed directed documents) built in 16 configurations; observations = exit status/stderr of pilota-build and rustc diagnostics (cargo check of a crate that include!s every output as a module against the working tree's pilota).",
   design="6/C14",
   note="Thrift documents (hostile names, six namespace layouts incl. multi-segment paths that differ in the middle) and G_proto documents (plain names and, for every other pair, hostile names kept valid in protobuf's own terms: unique per scope, field names unique as JSON names). Uniqueness of names only in Thrift's own terms. Directed documents present in every run: shapes a random document has only by chance (double set/map keys with int literals, struct literals naming boxed fields, triple name collisions, constants/literals on typedef'd fields, package-less .proto in split mode) plus the recorded findings (prelude names, recursive unions, oneof recursion).",
   technique="runtime monitoring: child-process status + compiler diagnostics over generated programs"),
 "C17": dict(
   level="exploration",
   text="Output-equality monitor over schedules: each corpus built R times in fresh processes (fresh hash seeds) x RAYON_NUM_THREADS in {1..16} x jitter hook x concurrent builders, in single/split/workspace mode; file set and contents must be identical; the hook's order log reports how many distinct task completion orders were actually seen (floor >= 5).",
   design="6/C17",
   note="Schedules are sampled. Thrift (incl. 'sparse' corpora: ~90 definitions of which 6 services reach a part, built with ignore_unused(true) = Builder default) and protobuf corpora. Needs the cfg(pilota_verif) hook for jitter/order observation; without it the equality oracle still runs but the order floor is unmet (inconclusive).",
   technique="runtime monitoring: process repetition under injected jitter, file-content comparison, observed-order counting"),
 "C05": dict(
   level="exploration",
   text="Bytes-only oracle over .proto programs x inputs: G_proto corpora (proto2+proto3, a fixed all-kinds message, a recursive message) compiled by pilota-build {single, split, + pilota built with pb-encode-default-value}; reference-encode -> Message::decode -> encode -> reference-decode equality, encoded_len == bytes, typed round trip, length-delimited framing consumes exactly its frame.",
   design="6/C05",
   note="Two kinds of programs: messages generated by pilota-build, and hand-written Message impls of harness/pbrt (the wrapper-type impls of prost/types.rs; Kitchen: encode_packed/encoded_len_packed of every numeric kind, std String, Vec<u8>, btree_map and hash_map, oneof, field numbers 15/16, 2047/2048, 2^28-1, 2^29-1; R9 with groups). Values include runs of 16..165 scalars, 127/128/300-byte strings and 40-entry maps (length-prefix boundaries). NaN and -0.0 are not generated.",
   technique="runtime monitoring: differential oracle vs independent schema-driven reference codec over generated programs"),
 "C06": dict(
   level="exploration",
   text="Conformance both ways against the independent reference codec: every conforming re-ordering / packing / map-entry form / explicit default of a value must decode to the same value, pilota's bytes must reference-decode to it, and a Debug probe on the typed message checks the number the program sees (catches codecs wrong in both directions, e.g. plain varint for sint).",
   design="6/C06",
   note="Trusted: reference codec (encoding-guide vectors), G_proto. The Debug probe covers singular integral fields at the top level of each message.",
   technique="runtime monitoring: differential oracle + typed-value probe over generated programs"),
 "C10": dict(
   level="fault_enumeration",
   text="Fault enumeration on generated message decoders (every truncation, bit flips, every top-level length prefix overwritten with boundary values, unstructured bytes) under panic/allocator monitors in supervised workers; claimed-length metamorphic check (peak allocation independent of the claimed length); nesting depth 1..300 of embedded messages (singular/repeated/map value) and unknown groups against the documented limit of 100 on a 2 MiB stack.",
   design="6/C10",
   note="Generated messages, the hand-written messages of harness/pbrt (wrapper-type impls of types.rs, packed/btree_map/group codecs) and the length-delimited framing (decode_length_delimited on every input); depth probes include known groups (hand-written R9 field 6).",
   technique="runtime monitoring: fault enumeration under allocator/panic monitors, supervised processes"),
 "C18": dict(
   level="exploration",
   text="Merge-semantics oracle: decode(enc(a)++enc(b)) == decode(enc(a)).merge(enc(b)) and both equal an independent STREAM decoder implementing last-wins / append / map insert-replace / oneof replacement / message merge; random record interleavings; unknown fields of every wire type (nested groups) at every nesting level must not change the message.",
   design="6/C18",
   note="Trusted: the reference stream decoder. Interleavings are sampled.",
   technique="runtime monitoring: reference stream decoder as oracle over generated programs"),
}

NOT_YET = "check not built yet (work in progress; see DESIGN.md section 6 for the planned monitor)"
ALL = ["C%02d" % i for i in range(1, 21)]

def main():
    checks = []
    for pid in ALL:
        if pid not in CHECKS: continue
        c = CHECKS[pid]
        checks.append({
            "property_id": pid,
            "quick_cmd": f"./check {pid} --tier quick",
            "thorough_cmd": f"./check {pid} --tier thorough",
            "evidence_file": f"/verif/evidence/{pid}.json",
            "replay_cmd_template": f"./check {pid} --replay {{path}}",
            "engine": c.get("engine", "harness"),
            "level_claimed": {"category": c["level"], "text": c["text"], "design_ref": c["design"]},
            "level_note": c["note"],
            "technique": c["technique"],
        })
    m = {
        "version": 1,
        "setup_cmd": "./setup.sh",
        "hooks": {
            "guard": "--cfg pilota_verif",
            "enable": "RUSTFLAGS='--cfg pilota_verif' when building /verif/harness (path dependencies on /repo)",
            "baseline_off_cmd": "cd /repo && cargo test --workspace --no-fail-fast --offline",
            "source_commits": ["c6fab14"],
            "add_only": True,
        },
        "engines": [
            {"name": "harness", "path": "/verif/harness", "serves_properties": sorted(CHECKS.keys()),
             "kind_free_text": "cargo workspace (refmodel: independent reference codecs, schema model, G_thrift, fault operators; monitors: counting allocator, scripted AsyncRead/executor, panic capture, process supervisor, vmerge; pcodec: value interpreter + codec/buffer matrix; rtcheck: runtime checks; parsecheck: IDL document generator/printer and parser checks; pbuild: pilota-build as a child process; gentool/genorch + gencase: generated-code case crates and their checks)"},
        ],
        "checks": checks,
        "notes": "Runtime monitoring and sanitizers only. Verdicts are three-valued: exit 0 held-on-observed, exit 1 VIOLATION, exit 3 INCONCLUSIVE (harness error / coverage floor not met). Known findings: /verif/known_findings.txt.",
        "not_applicable": [{"property_id": p, "reason": NOT_YET} for p in ALL if p not in CHECKS],
    }
    json.dump(m, open('/verif/MANIFEST.json', 'w'), indent=1)
    print("wrote MANIFEST.json with", len(checks), "checks")

if __name__ == "__main__":
    main()
