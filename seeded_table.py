#!/usr/bin/env python3
"""Prints the markdown tables of DESIGN.md 12.6 / 12.8 from seeded/*/meta.json."""
import glob, json, os

def rows(prefix):
    out = []
    for d in sorted(glob.glob(os.path.join(os.path.dirname(os.path.abspath(__file__)), "seeded", prefix + "*"))):
        mp = os.path.join(d, "meta.json")
        if not os.path.exists(mp):
            out.append((os.path.basename(d), "?", "(not evaluated)", "", ""))
            continue
        m = json.load(open(mp))
        ran = sorted({r["check"] for r in m.get("results", [])})
        missed = [c for c in ran if c not in m.get("detected_by", [])]
        out.append((os.path.basename(d), m.get("property", "?"), m.get("needs", ""), " ".join(m.get("detected_by", [])) or "**none**", " ".join(missed)))
    return out

for title, prefix in (("Sub-agent changes", "agent-"), ("Reverse-fix patches", "revert-")):
    print(f"#### {title}\n")
    print("| id | breaks | needs, to manifest | detected by (quick) | also run, silent |")
    print("|---|---|---|---|---|")
    for r in rows(prefix):
        print("| " + " | ".join(x.replace("|", "\\|") for x in r) + " |")
    print()
