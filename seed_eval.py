#!/usr/bin/env python3
"""seed_eval.py <seeded-dir> <property> <needs-text> <check-id>...

Applies <seeded-dir>/patch.diff to /repo, runs the quick tier of the named
checks, restores /repo, and writes <seeded-dir>/meta.json recording which
property the change breaks, what it needs to manifest, and what each check
reported (exit code, number of VIOLATION lines, first violation keys).
Never commits anything to /repo.
"""
import json, os, re, subprocess, sys, time

def main():
    d, prop, needs, checks = sys.argv[1], sys.argv[2], sys.argv[3], sys.argv[4:]
    d = os.path.abspath(d)
    patch = os.path.join(d, "patch.diff")
    if subprocess.run(["git", "-C", "/repo", "status", "--porcelain"], capture_output=True, text=True).stdout.strip():
        print("refusing: /repo is not clean"); sys.exit(2)
    r = subprocess.run(["git", "-C", "/repo", "apply", patch])
    if r.returncode != 0:
        print("patch does not apply"); sys.exit(2)
    results = []
    try:
        for c in checks:
            t0 = time.time()
            tier = os.environ.get("SEED_TIER", "quick")
            p = subprocess.run(["./check", c, "--tier", tier], cwd="/verif", capture_output=True, text=True)
            out = p.stdout + p.stderr
            vio = [l for l in out.splitlines() if l.startswith("VIOLATION")]
            keys = []
            for l in vio:
                m = re.search(r"key=(\S+)", l)
                if m and m.group(1) not in keys:
                    keys.append(m.group(1))
            inc = [l[:200] for l in out.splitlines() if l.startswith("INCONCLUSIVE")][:3]
            res = {"check": c, "tier": tier, "exit": p.returncode, "violation_lines": len(vio),
                   "first_keys": keys[:6], "first_line": (vio[0][:400] if vio else None),
                   "inconclusive": inc, "wall_s": round(time.time() - t0, 1)}
            results.append(res)
            print(json.dumps(res)[:700])
    finally:
        subprocess.run(["git", "-C", "/repo", "checkout", "--", "."])
        st = subprocess.run(["git", "-C", "/repo", "status", "--porcelain"], capture_output=True, text=True).stdout.strip()
        if st:
            print("WARNING: /repo not clean after restore:\n" + st)
    meta_p = os.path.join(d, "meta.json")
    meta = {}
    if os.path.exists(meta_p):
        meta = json.load(open(meta_p))
    meta.update({"property": prop, "needs": needs, "patch": "patch.diff",
                 "applied_to": subprocess.run(["git", "-C", "/repo", "rev-parse", "--short", "HEAD"], capture_output=True, text=True).stdout.strip(),
                 "how_run": "git -C /repo apply patch.diff; ./check <id> --tier quick; git -C /repo checkout -- ."})
    old = {(r["check"], r["tier"]): r for r in meta.get("results", [])}
    for r in results:
        old[(r["check"], r["tier"])] = r
    meta["results"] = list(old.values())
    meta["detected_by"] = sorted({r["check"] for r in meta["results"] if r["exit"] == 1 and r["violation_lines"] > 0})
    json.dump(meta, open(meta_p, "w"), indent=1)
    print("detected_by:", meta["detected_by"])

main()
