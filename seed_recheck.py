#!/usr/bin/env python3
"""seed_recheck.py [prefix...] : re-confirms seeded changes after the checks changed.

For every seeded/<prefix>* directory with a meta.json, re-runs ONE of the checks
recorded in `detected_by` (the cheapest) through seed_eval.py and reports changes
whose detection was lost. Patches /repo while it runs (seed_eval restores it)."""
import glob, json, os, subprocess, sys, time
ROOT = os.path.dirname(os.path.abspath(__file__))
COST = {"C15": 1, "C16": 2, "C03": 2, "C07": 3, "C01": 4, "C04": 5, "C20": 6, "C05": 6, "C06": 6, "C18": 6, "C10": 6, "C13": 7,
        "C08": 7, "C11": 7, "C12": 8, "C02": 9, "C14": 10, "C19": 11, "C09": 12, "C17": 20}
prefixes = sys.argv[1:] or [""]
lost, seen = [], 0
budget = float(os.environ.get("RECHECK_MINUTES", "1e9")) * 60
t0 = time.time()
for pre in prefixes:
    for d in sorted(glob.glob(os.path.join(ROOT, "seeded", pre + "*"))):
        mp = os.path.join(d, "meta.json")
        if not os.path.exists(mp):
            continue
        if time.time() - t0 > budget:
            print("budget used up before", os.path.basename(d)); break
        m = json.load(open(mp))
        det = m.get("detected_by", [])
        if not det:
            lost.append((os.path.basename(d), "never detected")); continue
        c = min(det, key=lambda x: COST.get(x, 50))
        r = subprocess.run([os.path.join(ROOT, "seed_eval.py"), d, m["property"], m["needs"], c], cwd=ROOT, capture_output=True, text=True)
        last = (r.stdout.strip().splitlines() or ["?"])[-1]
        m2 = json.load(open(mp))
        ok = c in m2.get("detected_by", [])
        seen += 1
        print(("ok   " if ok else "LOST ") + os.path.basename(d), c, last[:120], flush=True)
        if not ok:
            lost.append((os.path.basename(d), c))
print("rechecked", seen, "lost", lost)
