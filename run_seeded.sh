#!/usr/bin/env bash
# usage: run_seeded.sh <patch.diff> <check-id>...   — applies a patch to /repo, runs quick checks, restores /repo
set -u
P="$(realpath "$1")"; shift
cd /verif
git -C /repo apply "$P" || { echo "patch does not apply"; exit 2; }
for id in "$@"; do
  out=$(./check "$id" --tier quick 2>&1); rc=$?
  echo "[$id] rc=$rc $(echo "$out" | grep -c '^VIOLATION') violation line(s)"
  echo "$out" | grep '^VIOLATION' | cut -c1-260 | head -4
  echo "$out" | grep -E 'INCONCLUSIVE|KNOWN' | cut -c1-200 | head -3
done
git -C /repo checkout -- .
git -C /repo status --short | head
