//! Type-erased access to a generated type through `pilota::thrift::Message`.
//! Typed values are never constructed by the harness: they come out of
//! `decode` and go back into `encode`.

use std::any::Any;
use std::fmt::Debug;

use bytes::{BufMut, Bytes, BytesMut};
use linkedbytes::LinkedBytes;
use monitors::aio::{BlockErr, Schedule, SharedReader, block_on};
use pcodec::codecs::{BK, GUARD, GUARD_BYTE, WP, flatten_linked};
use pilota::thrift::{
    Message, TAsyncBinaryProtocol, TAsyncCompactProtocol,
    binary::TBinaryProtocol,
    binary_le::{TAsyncBinaryProtocol as TAsyncBinaryLeProtocol, TBinaryProtocol as TBinaryLeProtocol},
    binary_unsafe::{TBinaryUnsafeInputProtocol, TBinaryUnsafeOutputProtocol},
    compact::{TCompactInputProtocol, TCompactOutputProtocol},
};

pub trait Val: Any {
    fn encode(&self, wp: WP, bk: BK) -> Result<Vec<u8>, String>;
    /// unchecked writer into an exact-size guarded window; returns bytes and
    /// whether the tail guard is intact
    fn encode_unchecked_guarded(&self, bk: BK, size: usize) -> Result<(Vec<u8>, bool), String>;
    fn size(&self, wp: WP) -> usize;
    fn eq_dyn(&self, o: &dyn Val) -> bool;
    fn debug(&self) -> String;
    fn as_any(&self) -> &dyn Any;
}

impl<T: Message + Debug + PartialEq + 'static> Val for T {
    fn encode(&self, wp: WP, bk: BK) -> Result<Vec<u8>, String> {
        let e = |r: Result<(), pilota::thrift::ThriftException>| r.map_err(|e| format!("{}", e));
        match (wp, bk) {
            (WP::Binary, BK::BytesMut) => {
                let mut b = BytesMut::new();
                e(Message::encode(self, &mut TBinaryProtocol::new(&mut b, false)))?;
                Ok(b.to_vec())
            }
            (WP::Binary, _) => {
                let mut lb = LinkedBytes::new();
                e(Message::encode(self, &mut TBinaryProtocol::new(&mut lb, bk == BK::LinkedOn)))?;
                Ok(flatten_linked(&lb, &[]).0)
            }
            (WP::BinaryLe, _) => {
                let mut b = BytesMut::new();
                e(Message::encode(self, &mut TBinaryLeProtocol::new(&mut b, false)))?;
                Ok(b.to_vec())
            }
            (WP::Compact, _) => {
                let mut b = BytesMut::new();
                e(Message::encode(self, &mut TCompactOutputProtocol::new(&mut b, false)))?;
                Ok(b.to_vec())
            }
            (WP::Unchecked, _) => {
                let size = Message::size(self, &mut TBinaryProtocol::new((), false));
                self.encode_unchecked_guarded(bk, size).map(|x| x.0)
            }
        }
    }

    fn encode_unchecked_guarded(&self, bk: BK, size: usize) -> Result<(Vec<u8>, bool), String> {
        match bk {
            BK::BytesMut => {
                let mut buf = BytesMut::zeroed(size + GUARD);
                for b in buf[size..].iter_mut() {
                    *b = GUARD_BYTE;
                }
                let idx;
                unsafe {
                    let s: &'static mut [u8] = std::slice::from_raw_parts_mut(buf.as_mut_ptr(), size);
                    let mut p = TBinaryUnsafeOutputProtocol::new(&mut buf, s, false);
                    Message::encode(self, &mut p).map_err(|e| format!("{}", e))?;
                    idx = p.index();
                }
                let intact = buf[size..].iter().all(|b| *b == GUARD_BYTE);
                Ok((buf[..idx.min(size)].to_vec(), intact))
            }
            _ => {
                let mut lb = LinkedBytes::with_capacity(size + GUARD);
                let base: *mut u8 = lb.bytes_mut().as_mut_ptr();
                let cap = lb.bytes_mut().capacity();
                unsafe { std::ptr::write_bytes(base.add(size), GUARD_BYTE, cap - size) };
                let idx;
                unsafe {
                    let s: &'static mut [u8] = std::slice::from_raw_parts_mut(base, size);
                    let mut p = TBinaryUnsafeOutputProtocol::new(&mut lb, s, bk == BK::LinkedOn);
                    Message::encode(self, &mut p).map_err(|e| format!("{}", e))?;
                    idx = p.index();
                }
                let intact = unsafe { std::slice::from_raw_parts(base.add(size), cap - size) }.iter().all(|b| *b == GUARD_BYTE);
                let spare = lb.bytes_mut().capacity() - lb.bytes_mut().len();
                if spare < idx {
                    return Err(format!("unchecked writer index {} beyond spare capacity {}", idx, spare));
                }
                unsafe { lb.bytes_mut().advance_mut(idx) };
                Ok((flatten_linked(&lb, &[]).0, intact))
            }
        }
    }

    fn size(&self, wp: WP) -> usize {
        match wp {
            WP::Binary => Message::size(self, &mut TBinaryProtocol::new((), false)),
            // the unchecked writer's own length protocol (what a caller sizes its buffer with)
            WP::Unchecked => {
                let mut b = BytesMut::new();
                let s: &'static mut [u8] = &mut [];
                Message::size(self, &mut unsafe { TBinaryUnsafeOutputProtocol::new(&mut b, s, false) })
            }
            WP::BinaryLe => Message::size(self, &mut TBinaryLeProtocol::new((), false)),
            WP::Compact => Message::size(self, &mut TCompactOutputProtocol::new((), false)),
        }
    }

    fn eq_dyn(&self, o: &dyn Val) -> bool {
        match o.as_any().downcast_ref::<T>() {
            Some(x) => self == x,
            None => false,
        }
    }

    fn debug(&self) -> String {
        format!("{:?}", self)
    }

    fn as_any(&self) -> &dyn Any {
        self
    }
}

pub type DecOut = (Result<Box<dyn Val>, String>, usize);

pub struct AsyncOut {
    /// Err = executor problem (poll budget / stall)
    pub out: Result<Result<Box<dyn Val>, String>, String>,
    pub handed: usize,
    pub polls: usize,
}

pub struct TypeOps {
    /// index into `Schema::targets()`
    pub idx: usize,
    pub decode: fn(WP, &[u8]) -> DecOut,
    pub decode_async: fn(WP, &[u8], &Schedule) -> AsyncOut,
    pub default: fn() -> Box<dyn Val>,
    pub type_name: &'static str,
    pub size_of: usize,
}

fn dec<T: Message + Debug + PartialEq + 'static>(wp: WP, b: &[u8]) -> DecOut {
    let mut bytes = Bytes::copy_from_slice(b);
    let total = bytes.len();
    match wp {
        WP::Binary => {
            let r = T::decode(&mut TBinaryProtocol::new(&mut bytes, false));
            (r.map(|v| Box::new(v) as Box<dyn Val>).map_err(|e| format!("{}", e)), total - bytes.len())
        }
        WP::BinaryLe => {
            let r = T::decode(&mut TBinaryLeProtocol::new(&mut bytes, false));
            (r.map(|v| Box::new(v) as Box<dyn Val>).map_err(|e| format!("{}", e)), total - bytes.len())
        }
        WP::Compact => {
            let r = T::decode(&mut TCompactInputProtocol::new(&mut bytes));
            (r.map(|v| Box::new(v) as Box<dyn Val>).map_err(|e| format!("{}", e)), total - bytes.len())
        }
        WP::Unchecked => {
            let (r, idx) = {
                let mut p = unsafe { TBinaryUnsafeInputProtocol::new(&mut bytes) };
                let r = T::decode(&mut p);
                (r, p.index())
            };
            (r.map(|v| Box::new(v) as Box<dyn Val>).map_err(|e| format!("{}", e)), total - bytes.len() + idx)
        }
    }
}

fn dec_async<T: Message + Debug + PartialEq + 'static>(wp: WP, b: &[u8], sched: &Schedule) -> AsyncOut {
    let rd = SharedReader::new(b.to_vec(), sched.clone());
    let budget = 8 * b.len() + 128;
    macro_rules! go {
        ($p:expr) => {{
            let mut p = $p;
            block_on(async { T::decode_async(&mut p).await }, budget)
        }};
    }
    let r = match wp {
        WP::Binary => go!(TAsyncBinaryProtocol::new(rd.clone())),
        WP::BinaryLe => go!(TAsyncBinaryLeProtocol::new(rd.clone())),
        _ => go!(TAsyncCompactProtocol::new(rd.clone())),
    };
    let out = match r {
        Ok((v, _)) => Ok(v.map(|v| Box::new(v) as Box<dyn Val>).map_err(|e| format!("{}", e))),
        Err(BlockErr::Budget(n)) => Err(format!("poll budget exceeded after {} polls", n)),
        Err(BlockErr::Stalled(n)) => Err(format!("Pending without wake-up at poll {}", n)),
    };
    AsyncOut { out, handed: rd.handed(), polls: rd.polls() }
}

pub fn ops<T: Message + Debug + PartialEq + Default + 'static>(idx: usize) -> TypeOps {
    TypeOps {
        idx,
        decode: dec::<T>,
        decode_async: dec_async::<T>,
        default: || Box::new(T::default()) as Box<dyn Val>,
        type_name: std::any::type_name::<T>(),
        size_of: std::mem::size_of::<T>(),
    }
}
