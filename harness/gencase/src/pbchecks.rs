//! Checks over the protobuf code pilota-build generated for one .proto corpus:
//! C05 (round trip + encoded_len), C06 (wire conformance both directions),
//! C10 (totality), C18 (merge semantics), C19 (no leak on failed decode).

use std::any::Any;
use std::fmt::Debug;
use std::sync::OnceLock;

use monitors::alloc;
use monitors::driver::{Check, deaths_as_violations, sub_mark, sub_mark_n};
use monitors::evidence::{Ctx, Frag, Report};
use monitors::run::{Death, STACK_2MIB, catch, death_json, on_stack};
use pilota::prost::Message;
use refmodel::pb::{FKind, Label, PField, PGen, PKnobs, PMsgVal, PSchema, PTy, PV, canon, decode as refdec, default_of, encode as refenc, permute, records, unknown_field};
use refmodel::rng::{Rng, fnv1a, hex};
use serde_json::{Value, json};

pub trait PVal: Any {
    fn to_vec(&self) -> Vec<u8>;
    fn to_vec_ld(&self) -> Vec<u8>;
    fn len(&self) -> usize;
    fn merge_from(&mut self, b: &[u8]) -> Result<(), String>;
    fn eq_dyn(&self, o: &dyn PVal) -> bool;
    fn debug(&self) -> String;
    fn as_any(&self) -> &dyn Any;
}

impl<T: Message + Default + PartialEq + Debug + 'static> PVal for T {
    fn to_vec(&self) -> Vec<u8> {
        self.encode_to_vec()
    }
    fn to_vec_ld(&self) -> Vec<u8> {
        self.encode_length_delimited_to_vec()
    }
    fn len(&self) -> usize {
        self.encoded_len()
    }
    fn merge_from(&mut self, b: &[u8]) -> Result<(), String> {
        Message::merge(self, b).map_err(|e| format!("{}", e))
    }
    fn eq_dyn(&self, o: &dyn PVal) -> bool {
        o.as_any().downcast_ref::<T>().map(|x| x == self).unwrap_or(false)
    }
    fn debug(&self) -> String {
        format!("{:?}", self)
    }
    fn as_any(&self) -> &dyn Any {
        self
    }
}

pub struct PTypeOps {
    pub idx: usize,
    pub decode: fn(&[u8]) -> Result<Box<dyn PVal>, String>,
    /// decode_length_delimited on `b`; returns the value and the bytes consumed
    pub decode_ld: fn(&[u8]) -> (Result<Box<dyn PVal>, String>, usize),
    pub size_of: usize,
}

pub fn pops<T: Message + Default + PartialEq + Debug + 'static>(idx: usize) -> PTypeOps {
    PTypeOps {
        idx,
        decode: |b| T::decode(b).map(|v| Box::new(v) as Box<dyn PVal>).map_err(|e| format!("{}", e)),
        decode_ld: |b| {
            let mut buf: &[u8] = b;
            let r = T::decode_length_delimited(&mut buf);
            (r.map(|v| Box::new(v) as Box<dyn PVal>).map_err(|e| format!("{}", e)), b.len() - buf.len())
        },
        size_of: std::mem::size_of::<T>(),
    }
}

pub struct PCase {
    pub schema: PSchema,
    pub ops: Vec<PTypeOps>,
    pub config: String,
    pub corpus: String,
    /// pilota built with feature pb-encode-default-value
    pub encdef: bool,
}

static PCASE: OnceLock<PCase> = OnceLock::new();

fn pc() -> &'static PCase {
    PCASE.get().expect("pcase")
}

fn mname(m: usize) -> String {
    format!("{}:{}", pc().corpus, pc().schema.full_name(m))
}

fn gen_val(ctx: &Ctx, m: usize, k: u64, salt: u64) -> PMsgVal {
    let c = pc();
    let mut rng = Rng::new(ctx.seed ^ salt ^ fnv1a(c.corpus.as_bytes()) ^ ((m as u64) << 32) ^ k.wrapping_mul(0x9E37_79B9_7F4A_7C15));
    let mut g = PGen { s: &c.schema, rng: &mut rng, max_depth: 3, fill: (k % 3) as u8 };
    g.msg(m, 0)
}

fn cj(m: usize, x: &PMsgVal, extra: Value) -> Value {
    json!({"corpus": pc().corpus, "config": pc().config, "message": pc().schema.full_name(m), "message_idx": m,
           "value_hex": hex(&refenc(&pc().schema, m, x, &PKnobs::default())), "value": x.render(300), "extra": extra})
}

fn count_kinds(m: usize, frag: &mut Frag) {
    for f in &pc().schema.msgs[m].fields {
        match &f.kind {
            FKind::Plain(l, t) => {
                let pos = if f.oneof.is_some() {
                    "oneof"
                } else {
                    match l {
                        Label::Repeated => "repeated",
                        _ => "singular",
                    }
                };
                frag.count(&format!("kind.{}.{}", t.name(), pos));
            }
            FKind::Map(k, v) => {
                frag.count(&format!("kind.{}.map_key", k.name()));
                frag.count(&format!("kind.{}.map_value", v.name()));
            }
        }
    }
}

fn trunc(s: &str) -> String {
    s.chars().take(200).collect()
}

const PER_MSG_QUICK: u64 = 30;
const PER_MSG_THOROUGH: u64 = 500;

fn per_msg(ctx: &Ctx) -> u64 {
    ctx.scale(PER_MSG_QUICK, PER_MSG_THOROUGH)
}

macro_rules! msg_cases {
    () => {
        fn ncases(&self, ctx: &Ctx) -> u64 {
            pc().schema.msgs.len() as u64 * per_msg(ctx)
        }
        fn label(&self, ctx: &Ctx, idx: u64) -> String {
            format!("{}#{}", mname((idx / per_msg(ctx)) as usize), idx % per_msg(ctx))
        }
    };
}

fn replay_msg(ctx: &Ctx, case: &Value, frag: &mut Frag, f: impl Fn(&Ctx, usize, u64, &mut Frag)) -> bool {
    if case["corpus"].as_str() != Some(&pc().corpus) || case["config"].as_str() != Some(&pc().config) {
        return false;
    }
    match case["message_idx"].as_u64() {
        Some(m) if (m as usize) < pc().schema.msgs.len() => {
            for k in 0..per_msg(ctx) {
                f(ctx, m as usize, k, frag);
            }
            true
        }
        _ => false,
    }
}

// ===========================================================================
// C05

pub struct C05;

fn c05_one(ctx: &Ctx, m: usize, k: u64, frag: &mut Frag) {
    let c = pc();
    let x = gen_val(ctx, m, k, 0xC05);
    let cx = canon(&c.schema, m, &x);
    frag.eval();
    if x.0.len() >= 3 {
        frag.distinct(fnv1a(format!("{}{:?}", mname(m), cx).as_bytes()));
    }
    if k == 0 {
        count_kinds(m, frag);
    }
    if frag.samples.len() < 2 && k == 1 {
        frag.sample(json!({"message": mname(m), "config": c.config, "value": x.render(200)}));
    }
    let o = &c.ops[m];
    let b = refenc(&c.schema, m, &x, &PKnobs::default());
    sub_mark(&format!("c05 {} {}", mname(m), hex(&b[..b.len().min(80)])));
    frag.count("gen.roundtrips");
    let v = match catch(|| (o.decode)(&b)) {
        Ok(Ok(v)) => v,
        Ok(Err(e)) => {
            frag.violation("c05|gen|decode-rejected-valid", &format!("{}: valid reference encoding rejected: {}", mname(m), e), cj(m, &x, json!({})));
            return;
        }
        Err(p) => {
            frag.violation(&format!("c05|gen|decode-panic|{}|{}", p.site(), p.class()), &format!("{}: {} {}", mname(m), p.location, p.message), cj(m, &x, json!({})));
            return;
        }
    };
    let out = match catch(|| (v.to_vec(), v.len())) {
        Ok((out, n)) => {
            if n != out.len() {
                frag.violation("c05|gen|encoded_len-mismatch", &format!("{}: encoded_len() = {} but encode wrote {} bytes", mname(m), n, out.len()), cj(m, &x, json!({"encoded_hex": hex(&out)})));
            }
            out
        }
        Err(p) => {
            frag.violation(&format!("c05|gen|encode-panic|{}|{}", p.site(), p.class()), &format!("{}: {} {}", mname(m), p.location, p.message), cj(m, &x, json!({})));
            return;
        }
    };
    match refdec(&c.schema, m, &out) {
        Ok(got) => {
            let cg = canon(&c.schema, m, &got);
            if cg != cx {
                // (the typed value is unchanged when only the PRESENCE of required fields inside a
                // default-valued map value is lost on the wire: that is C06's finding, not a round-trip failure)
                if only_required_default_map_values_dropped(&c.schema, m, &cx, &cg) {
                    frag.masked("presence-of-required-fields-in-default-map-value(C06)");
                } else {
                    frag.violation("c05|gen|value-changed", &format!("{}: decode then encode changed the value at {}: expected {} got {}", mname(m), first_diff_detail(&c.schema, m, &cx, &cg), cx.render(200), cg.render(200)), cj(m, &x, json!({"encoded_hex": hex(&out)})));
                }
            }
        }
        Err(e) => frag.violation("c05|gen|encoded-bytes-invalid", &format!("{}: re-encoded bytes are not valid protobuf: {:?}", mname(m), e), cj(m, &x, json!({"encoded_hex": hex(&out)}))),
    }
    // typed round trip
    match catch(|| (o.decode)(&out)) {
        Ok(Ok(v2)) => {
            if !v2.eq_dyn(&*v) {
                frag.violation("c05|gen|typed-roundtrip-differs", &format!("{}: decode(encode(v)) != v: {} vs {}", mname(m), trunc(&v2.debug()), trunc(&v.debug())), cj(m, &x, json!({})));
            }
        }
        Ok(Err(e)) => frag.violation("c05|gen|own-output-rejected", &format!("{}: {}", mname(m), e), cj(m, &x, json!({"encoded_hex": hex(&out)}))),
        Err(p) => frag.violation(&format!("c05|gen|decode-panic|{}|{}", p.site(), p.class()), &format!("{} {}", p.location, p.message), cj(m, &x, json!({}))),
    }
    // length-delimited framing consumes exactly its frame
    let mut ld = v.to_vec_ld();
    let frame = ld.len();
    ld.extend_from_slice(&[0xEE; 5]);
    frag.count("gen.length_delimited");
    match catch(|| (o.decode_ld)(&ld)) {
        Ok((Ok(v3), consumed)) => {
            if !v3.eq_dyn(&*v) {
                frag.violation("c05|gen|length-delimited-value", &format!("{}: length-delimited round trip changed the value", mname(m)), cj(m, &x, json!({})));
            } else if consumed != frame {
                frag.violation("c05|gen|length-delimited-consumed", &format!("{}: frame is {} bytes, decoder consumed {}", mname(m), frame, consumed), cj(m, &x, json!({})));
            }
        }
        Ok((Err(e), _)) => frag.violation("c05|gen|length-delimited-rejected", &format!("{}: {}", mname(m), e), cj(m, &x, json!({}))),
        Err(p) => frag.violation(&format!("c05|gen|length-delimited-panic|{}|{}", p.site(), p.class()), &format!("{} {}", p.location, p.message), cj(m, &x, json!({}))),
    }
}

impl Check for C05 {
    fn id(&self) -> &'static str {
        "c05"
    }
    fn rule(&self) -> String {
        "program = .proto document of G_proto (proto2 and proto3: every scalar type in singular/optional/required/repeated/map-key/map-value/oneof position, enums incl. nested and negative values, nested messages to depth 3, recursive message, field numbers 1/15/16/2047/2048/2^29-1) compiled by pilota-build {single, split; one corpus also with feature pb-encode-default-value}; for every message type and N schema-directed values: reference-encode -> decode -> encode -> reference-decode equals the value (proto3 implicit fields: absent == default), encoded_len == bytes written, decode(encode(v)) == v, length-delimited framing consumes exactly its frame. distinct = (message, canonical value) with >= 3 field occurrences".into()
    }
    msg_cases!();
    fn run_case(&self, ctx: &Ctx, idx: u64, frag: &mut Frag) {
        c05_one(ctx, (idx / per_msg(ctx)) as usize, idx % per_msg(ctx), frag);
    }
    fn replay(&self, ctx: &Ctx, case: &Value, frag: &mut Frag) -> bool {
        replay_msg(ctx, case, frag, c05_one)
    }
    fn finish(&self, _ctx: &Ctx, r: &mut Report, deaths: &[Death]) {
        deaths_as_violations(r, deaths);
        r.assume("NaN floats/doubles are not generated (typed equality is PartialEq); values enter and leave the typed world as bytes judged by the reference codec");
        r.floor("gen.roundtrips", 200);
        r.floor("gen.length_delimited", 200);
    }
}

// ===========================================================================
// C06

pub struct C06;

/// the value with explicit default-valued occurrences for absent implicit-presence scalars
fn with_defaults(s: &PSchema, m: usize, x: &PMsgVal) -> PMsgVal {
    let mut out = x.clone();
    for f in &s.msgs[m].fields {
        if let FKind::Plain(Label::Implicit, ty) = &f.kind {
            if f.oneof.is_none() && !matches!(ty, PTy::Msg(_)) && !out.0.iter().any(|(n, _)| *n == f.num) {
                out.0.push((f.num, default_of(s, ty)));
            }
        }
    }
    out
}

fn c06_one(ctx: &Ctx, m: usize, k: u64, frag: &mut Frag) {
    let c = pc();
    let x = gen_val(ctx, m, k, 0xC06);
    let cx = canon(&c.schema, m, &x);
    let o = &c.ops[m];
    let mut rng = Rng::new(ctx.seed ^ 0x606 ^ k ^ (m as u64) << 16);
    if x.0.len() >= 3 {
        frag.distinct(fnv1a(format!("{}{:?}", mname(m), cx).as_bytes()));
    }
    // floors: negative / >= 2^31 values of the zigzag and fixed types per position
    for (num, v) in &x.0 {
        if let Some(f) = c.schema.msgs[m].fields.iter().find(|f| f.num == *num) {
            let (ty, pos) = match (&f.kind, v) {
                (FKind::Plain(l, t), _) => (t.clone(), if f.oneof.is_some() { "oneof" } else if *l == Label::Repeated { "repeated" } else { "singular" }),
                (FKind::Map(_, t), _) => (t.clone(), "map_value"),
            };
            let v2 = if let PV::Entry(_, val) = v { &**val } else { v };
            let big = matches!(v2, PV::Int(i) if *i < 0) || matches!(v2, PV::UInt(u) if *u >= 1 << 31);
            if big && matches!(ty, PTy::SInt32 | PTy::SInt64 | PTy::Fixed32 | PTy::Fixed64 | PTy::SFixed32 | PTy::SFixed64) {
                frag.count(&format!("hard_value.{}.{}", ty.name(), pos));
            }
            if let (FKind::Map(kt, _), PV::Entry(kk, _)) = (&f.kind, v) {
                let bigk = matches!(&**kk, PV::Int(i) if *i < 0) || matches!(&**kk, PV::UInt(u) if *u >= 1 << 31);
                if bigk && matches!(kt, PTy::SInt32 | PTy::SInt64 | PTy::Fixed32 | PTy::Fixed64 | PTy::SFixed32 | PTy::SFixed64) {
                    frag.count(&format!("hard_value.{}.map_key", kt.name()));
                }
            }
        }
    }
    let variants: Vec<(String, Vec<u8>)> = {
        let mut v = vec![];
        for packing in 0..3u8 {
            for map_entry in 0..4u8 {
                if (packing as u64 + map_entry as u64 + k) % 2 == 1 && !(packing == 0 && map_entry == 0) {
                    continue;
                }
                let p = permute(&x, &mut rng);
                v.push((format!("permuted/packing{}/map_entry{}", packing, map_entry), refenc(&c.schema, m, &p, &PKnobs { packing, map_entry })));
            }
        }
        v.push(("defaults-present".into(), refenc(&c.schema, m, &with_defaults(&c.schema, m, &x), &PKnobs::default())));
        v
    };
    for (vname, b) in variants {
        frag.eval();
        frag.count(&format!("ref_to_pilota.{}", vname.split('/').next().unwrap_or("")));
        if vname.contains("packing1") || vname.contains("packing2") {
            frag.count("ref_to_pilota.packed_input");
        } else {
            frag.count("ref_to_pilota.unpacked_input");
        }
        sub_mark(&format!("c06 {} {} {}", mname(m), vname, hex(&b[..b.len().min(80)])));
        let case = || cj(m, &x, json!({"variant": vname, "input_hex": hex(&b)}));
        match catch(|| (o.decode)(&b)) {
            Ok(Ok(v)) => match catch(|| v.to_vec()) {
                Ok(out) => {
                    // typed side (Debug probe): a codec that is wrong in BOTH directions (e.g. plain
                    // varint where ZigZag is declared) round-trips bytes unchanged; the number the
                    // program sees is only visible in the typed value
                    let dbg = v.debug();
                    for (num, pv) in &cx.0 {
                        if let Some(f) = c.schema.msgs[m].fields.iter().find(|f| f.num == *num) {
                            if let (FKind::Plain(l, ty), None) = (&f.kind, f.oneof) {
                                if *l == Label::Repeated {
                                    continue;
                                }
                                let txt = match (ty, pv) {
                                    (PTy::Bool, PV::Int(i)) => Some(format!("{}", *i != 0)),
                                    (PTy::Int32 | PTy::Int64 | PTy::SInt32 | PTy::SInt64 | PTy::SFixed32 | PTy::SFixed64, PV::Int(i)) => Some(format!("{}", i)),
                                    (PTy::UInt32 | PTy::UInt64 | PTy::Fixed32 | PTy::Fixed64, PV::UInt(u)) => Some(format!("{}", u)),
                                    _ => None,
                                };
                                if let Some(t) = txt {
                                    frag.count(&format!("debug_probe.{}", ty.name()));
                                    let a1 = format!("{}: {},", f.name, t);
                                    let a2 = format!("{}: {} ", f.name, t);
                                    let a3 = format!("{}: Some({})", f.name, t);
                                    let a4 = format!("{}: {}\n", f.name, t);
                                    // (a wrapper type's Debug is the bare value)
                                    if !(dbg.contains(&a1) || dbg.contains(&a2) || dbg.contains(&a3) || dbg.contains(&a4) || dbg == t) {
                                        frag.violation(&format!("c06|typed-value|{}.singular", ty.name()), &format!("{}: field {} ({}) was sent as {} but the decoded message shows {}", mname(m), f.name, ty.name(), t, trunc(&dbg)), case());
                                    }
                                }
                            }
                        }
                    }
                    match refdec(&c.schema, m, &out) {
                    Ok(got) => {
                        let cg = canon(&c.schema, m, &got);
                        if cg != cx {
                            let which = if only_required_default_map_values_dropped(&c.schema, m, &cx, &cg) { MAP_VALUE_KEY.to_string() } else { first_diff_kind(&c.schema, m, &cx, &cg) };
                            frag.violation(&format!("c06|value|{}", which), &format!("{}: a conforming encoding ({}) decodes/encodes to a different value at {}: expected {} got {}", mname(m), vname, first_diff_detail(&c.schema, m, &cx, &cg), cx.render(160), cg.render(160)), case());
                        }
                    }
                    Err(e) => frag.violation("c06|pilota-bytes-invalid", &format!("{}: bytes produced by pilota are not valid protobuf for the schema: {:?}", mname(m), e), case()),
                }},
                Err(p) => frag.violation(&format!("c06|encode-panic|{}|{}", p.site(), p.class()), &format!("{} {}", p.location, p.message), case()),
            },
            Ok(Err(e)) => frag.violation(&format!("c06|rejected|{}", vname.split('/').next().unwrap_or("")), &format!("{}: conforming encoding ({}) rejected: {}", mname(m), vname, e), case()),
            Err(p) => frag.violation(&format!("c06|decode-panic|{}|{}", p.site(), p.class()), &format!("{} {}", p.location, p.message), case()),
        }
    }
}

/// One recorded defect, one key: `hash_map::encode` / `btree_map::encode` omit a map VALUE that
/// equals `V::default()`. For a proto2 message value that consists only of `required` fields
/// holding their type's default, the required fields are thereby not on the wire (a conforming
/// proto2 reader reports them missing). True iff every difference between `a` (expected) and
/// `b` (what pilota's bytes decode to) is of exactly that shape.
const MAP_VALUE_KEY: &str = "map-value-message-equal-to-default-omitted-with-its-required-fields";

fn only_required_default_map_values_dropped(s: &PSchema, m: usize, a: &PMsgVal, b: &PMsgVal) -> bool {
    if s.proto3 {
        return false;
    }
    let mut explained_any = false;
    for f in &s.msgs[m].fields {
        let oa: Vec<&PV> = a.0.iter().filter(|(n, _)| *n == f.num).map(|x| &x.1).collect();
        let ob: Vec<&PV> = b.0.iter().filter(|(n, _)| *n == f.num).map(|x| &x.1).collect();
        if oa == ob {
            continue;
        }
        if oa.len() != ob.len() {
            return false;
        }
        match &f.kind {
            FKind::Plain(_, PTy::Msg(mi)) => {
                for (x, y) in oa.iter().zip(ob.iter()) {
                    match (x, y) {
                        (PV::Msg(mx), PV::Msg(my)) if mx == my => {}
                        (PV::Msg(mx), PV::Msg(my)) => {
                            if !only_required_default_map_values_dropped(s, *mi, mx, my) {
                                return false;
                            }
                            explained_any = true;
                        }
                        _ => return false,
                    }
                }
            }
            FKind::Map(_, PTy::Msg(vm)) => {
                for (x, y) in oa.iter().zip(ob.iter()) {
                    if x == y {
                        continue;
                    }
                    match (x, y) {
                        (PV::Entry(kx, vx), PV::Entry(ky, vy)) if kx == ky => match (&**vx, &**vy) {
                            (PV::Msg(mx), PV::Msg(my)) => {
                                let dropped = my.0.is_empty()
                                    && !mx.0.is_empty()
                                    && mx.0.iter().all(|(num, pv)| {
                                        s.msgs[*vm].fields.iter().any(|g| g.num == *num && matches!(&g.kind, FKind::Plain(Label::Required, t) if !matches!(t, PTy::Msg(_)) && default_of(s, t) == *pv))
                                    });
                                if dropped {
                                    explained_any = true;
                                } else if !only_required_default_map_values_dropped(s, *vm, mx, my) {
                                    return false;
                                } else {
                                    explained_any = true;
                                }
                            }
                            _ => return false,
                        },
                        _ => return false,
                    }
                }
            }
            _ => return false,
        }
    }
    explained_any
}

/// the first differing occurrences themselves, for the violation text
fn first_diff_detail(s: &PSchema, m: usize, a: &PMsgVal, b: &PMsgVal) -> String {
    for f in &s.msgs[m].fields {
        let oa: Vec<&PV> = a.0.iter().filter(|(n, _)| *n == f.num).map(|x| &x.1).collect();
        let ob: Vec<&PV> = b.0.iter().filter(|(n, _)| *n == f.num).map(|x| &x.1).collect();
        if oa != ob {
            if let FKind::Plain(_, PTy::Msg(mi)) = &f.kind {
                for (x, y) in oa.iter().zip(ob.iter()) {
                    if let (PV::Msg(mx), PV::Msg(my)) = (x, y) {
                        if mx != my {
                            return format!("#{}/{}", f.num, first_diff_detail(s, *mi, mx, my));
                        }
                    }
                }
            }
            let only_a: Vec<String> = oa.iter().filter(|x| !ob.contains(x)).take(3).map(|x| format!("{:?}", x).chars().take(120).collect()).collect();
            let only_b: Vec<String> = ob.iter().filter(|x| !oa.contains(x)).take(3).map(|x| format!("{:?}", x).chars().take(120).collect()).collect();
            return format!("#{}: {} vs {} occurrences; only expected: {:?}; only got: {:?}", f.num, oa.len(), ob.len(), only_a, only_b);
        }
    }
    "?".into()
}

/// declared type + position of the first field whose canonical occurrences differ
fn first_diff_kind(s: &PSchema, m: usize, a: &PMsgVal, b: &PMsgVal) -> String {
    for f in &s.msgs[m].fields {
        let oa: Vec<&PV> = a.0.iter().filter(|(n, _)| *n == f.num).map(|x| &x.1).collect();
        let ob: Vec<&PV> = b.0.iter().filter(|(n, _)| *n == f.num).map(|x| &x.1).collect();
        if oa != ob {
            return match &f.kind {
                FKind::Plain(l, PTy::Msg(mi)) => {
                    // descend into the first differing nested message
                    for (x, y) in oa.iter().zip(ob.iter()) {
                        if let (PV::Msg(mx), PV::Msg(my)) = (x, y) {
                            if mx != my {
                                return first_diff_kind(s, *mi, mx, my);
                            }
                        }
                    }
                    format!("message.{}", if *l == Label::Repeated { "repeated" } else { "singular" })
                }
                FKind::Plain(l, t) => format!("{}.{}", t.name(), if f.oneof.is_some() { "oneof" } else if *l == Label::Repeated { "repeated" } else { "singular" }),
                FKind::Map(k, v) => {
                    // key or value?
                    let ka: Vec<&PV> = oa.iter().filter_map(|e| if let PV::Entry(k, _) = e { Some(&**k) } else { None }).collect();
                    let kb: Vec<&PV> = ob.iter().filter_map(|e| if let PV::Entry(k, _) = e { Some(&**k) } else { None }).collect();
                    if ka != kb { format!("{}.map_key", k.name()) } else { format!("{}.map_value", v.name()) }
                }
            };
        }
    }
    "unknown".into()
}

impl Check for C06 {
    fn id(&self) -> &'static str {
        "c06"
    }
    fn rule(&self) -> String {
        "oracle = independent schema-driven reference codec (checked against the encoding guide's example vectors). For every message type of the G_proto corpora and N values: every conforming encoding produced by the reference encoder - records permuted (repeated fields keep their own order, different fields interleave), repeated scalars unpacked / packed / several packed runs, map entries with value before key or with a default key or value omitted, proto3 defaults explicitly present - must be decoded by pilota to a value whose pilota-encoding the reference decoder maps back to the original (which also checks wire type and number transformation of every declared type: ZigZag, fixed little-endian, map entries key=1/value=2). Floors: negative or >= 2^31 values for sint/fixed/sfixed in singular, repeated, map-key, map-value and oneof position. distinct = (message, canonical value)".into()
    }
    msg_cases!();
    fn run_case(&self, ctx: &Ctx, idx: u64, frag: &mut Frag) {
        c06_one(ctx, (idx / per_msg(ctx)) as usize, idx % per_msg(ctx), frag);
    }
    fn replay(&self, ctx: &Ctx, case: &Value, frag: &mut Frag) -> bool {
        replay_msg(ctx, case, frag, c06_one)
    }
    fn finish(&self, _ctx: &Ctx, r: &mut Report, deaths: &[Death]) {
        deaths_as_violations(r, deaths);
        r.floor("ref_to_pilota.permuted", 500);
        r.floor("ref_to_pilota.packed_input", 100);
        r.floor("ref_to_pilota.unpacked_input", 100);
        r.floor("ref_to_pilota.defaults-present", 100);
        for t in ["sint32", "sint64", "fixed32", "fixed64", "sfixed32", "sfixed64"] {
            for p in ["singular", "repeated", "oneof", "map_key", "map_value"] {
                r.floor(&format!("hard_value.{}.{}", t, p), 1);
            }
            r.floor(&format!("debug_probe.{}", t), 5);
        }
    }
}

// ===========================================================================
// C18

pub struct C18;

fn inject_unknown(v: &PMsgVal, rng: &mut Rng, depth: usize) -> PMsgVal {
    let mut out = vec![];
    for (n, x) in &v.0 {
        if rng.chance(1, 3) {
            out.push((4_000_000 + rng.below(100) as u32, PV::Bytes(unknown_field(rng, 0))));
        }
        let x2 = match x {
            PV::Msg(mv) if depth < 4 => PV::Msg(inject_unknown(mv, rng, depth + 1)),
            PV::Entry(k, val) => match &**val {
                PV::Msg(mv) if depth < 4 => PV::Entry(k.clone(), Box::new(PV::Msg(inject_unknown(mv, rng, depth + 1)))),
                _ => x.clone(),
            },
            o => o.clone(),
        };
        out.push((*n, x2));
    }
    if rng.chance(1, 2) {
        out.push((4_000_000 + rng.below(100) as u32, PV::Bytes(unknown_field(rng, 0))));
    }
    PMsgVal(out)
}

fn c18_one(ctx: &Ctx, m: usize, k: u64, frag: &mut Frag) {
    let c = pc();
    let a = gen_val(ctx, m, k, 0xC18);
    let o = &c.ops[m];
    let mut rng = Rng::new(ctx.seed ^ 0x1818 ^ k ^ (m as u64) << 20);
    // every third case b is derived from a: the same map keys, about half of them with the
    // DEFAULT value (which an encoder may leave out of the entry: the later entry must still
    // replace the earlier one), the other fields as in an independent value
    let derived = k % 3 == 1;
    let b = if derived {
        let mut b = gen_val(ctx, m, k + 7919, 0xC18);
        b.0.retain(|(num, _)| !c.schema.msgs[m].fields.iter().any(|f| f.num == *num && matches!(f.kind, FKind::Map(..))));
        for (num, pv) in &a.0 {
            if let Some(PField { kind: FKind::Map(_, vt), .. }) = c.schema.msgs[m].fields.iter().find(|f| f.num == *num) {
                if let PV::Entry(key, val) = pv {
                    let v = if rng.chance(1, 2) { default_of(&c.schema, vt) } else { (**val).clone() };
                    b.0.push((*num, PV::Entry(key.clone(), Box::new(v))));
                    frag.count("derived.same_key_entries");
                }
            }
        }
        // ... and about half of the singular scalar / string / bytes fields that `a` sets occur
        // in `b` once more, last, explicitly with the DEFAULT value (a zero-length record for
        // bytes / string): the later occurrence must still win
        for (num, _) in &a.0 {
            if let Some(PField { kind: FKind::Plain(label, ty), .. }) = c.schema.msgs[m].fields.iter().find(|f| f.num == *num) {
                if !matches!(label, Label::Repeated) && !matches!(ty, PTy::Msg(_)) && rng.chance(1, 2) {
                    b.0.push((*num, default_of(&c.schema, ty)));
                    frag.count("derived.explicit_default_after_value");
                }
            }
        }
        b
    } else {
        gen_val(ctx, m, k + 7919, 0xC18)
    };
    let knobs = PKnobs { packing: (k % 3) as u8, map_entry: 0 };
    let ea = refenc(&c.schema, m, &a, &knobs);
    // (derived: default values are left out of the entries, as pilota's own encoder does)
    let eb = refenc(&c.schema, m, &b, &PKnobs { packing: ((k + 1) % 3) as u8, map_entry: if derived { 3 } else { 0 } });
    frag.eval();
    frag.distinct(fnv1a(format!("{}{:?}{:?}", mname(m), a, b).as_bytes()));
    if frag.samples.len() < 2 && k == 2 {
        frag.sample(json!({"message": mname(m), "a": a.render(140), "b": b.render(140)}));
    }
    let case = |extra: Value| json!({"corpus": c.corpus, "config": c.config, "message": c.schema.full_name(m), "message_idx": m, "a_hex": hex(&ea), "b_hex": hex(&eb), "a": a.render(200), "b": b.render(200), "extra": extra});
    // (1) decode(enc(a) ++ enc(b)) == decode(enc(a)).merge(enc(b)), and both equal the reference stream decoder
    let mut cat = ea.clone();
    cat.extend_from_slice(&eb);
    sub_mark(&format!("c18 {} concat {}", mname(m), hex(&cat[..cat.len().min(80)])));
    frag.count("concat_vs_merge");
    let whole = catch(|| (o.decode)(&cat));
    let parts = catch(|| {
        let mut v = (o.decode)(&ea)?;
        v.merge_from(&eb)?;
        Ok::<_, String>(v)
    });
    match (whole, parts) {
        (Ok(Ok(w)), Ok(Ok(p))) => {
            if !w.eq_dyn(&*p) {
                frag.violation("c18|concat-differs-from-merge", &format!("{}: decode(a ++ b) = {} but decode(a).merge(b) = {}", mname(m), trunc(&w.debug()), trunc(&p.debug())), case(json!({})));
            }
            match (refdec(&c.schema, m, &cat), refdec(&c.schema, m, &w.to_vec())) {
                (Ok(want), Ok(got)) => {
                    let (cw, cg) = (canon(&c.schema, m, &want), canon(&c.schema, m, &got));
                    if cw != cg {
                        if only_required_default_map_values_dropped(&c.schema, m, &cw, &cg) {
                            frag.masked("presence-of-required-fields-in-default-map-value(C06)");
                        } else {
                            let which = first_diff_kind(&c.schema, m, &cw, &cg);
                            frag.violation(&format!("c18|merge-semantics|{}", which), &format!("{}: merging two encodings at {}: reference stream decoder gives {} but pilota gives {}", mname(m), first_diff_detail(&c.schema, m, &cw, &cg), cw.render(200), cg.render(200)), case(json!({})));
                        }
                    }
                    // coverage observations
                    observe_merge(&c.schema, m, &a, &b, frag);
                }
                _ => frag.masked("reference-decoder-failed"),
            }
        }
        (Ok(Err(e)), _) | (_, Ok(Err(e))) => frag.violation("c18|rejected", &format!("{}: concatenation of two valid encodings rejected: {}", mname(m), e), case(json!({}))),
        (Err(p), _) | (_, Err(p)) => frag.violation(&format!("c18|panic|{}|{}", p.site(), p.class()), &format!("{} {}", p.location, p.message), case(json!({}))),
    }
    // (2) interleaving of the records of a and b (each repeated field keeps its own order)
    if let (Ok(ra), Ok(rb)) = (records(&ea), records(&eb)) {
        let mut inter = vec![];
        let (mut i, mut j) = (0, 0);
        while i < ra.len() || j < rb.len() {
            if j >= rb.len() || (i < ra.len() && rng.chance(1, 2)) {
                inter.extend_from_slice(&ra[i]);
                i += 1;
            } else {
                inter.extend_from_slice(&rb[j]);
                j += 1;
            }
        }
        frag.count("interleavings");
        if let (Ok(Ok(v)), Ok(want)) = (catch(|| (o.decode)(&inter)), refdec(&c.schema, m, &inter)) {
            if let Ok(got) = refdec(&c.schema, m, &v.to_vec()) {
                let (cw, cg) = (canon(&c.schema, m, &want), canon(&c.schema, m, &got));
                if cw != cg {
                    if only_required_default_map_values_dropped(&c.schema, m, &cw, &cg) {
                        frag.masked("presence-of-required-fields-in-default-map-value(C06)");
                    } else {
                        let which = first_diff_kind(&c.schema, m, &cw, &cg);
                        frag.violation(&format!("c18|interleaved|{}", which), &format!("{}: interleaved records differ at {}: reference {} vs pilota {}", mname(m), first_diff_detail(&c.schema, m, &cw, &cg), cw.render(200), cg.render(200)), case(json!({"interleaved_hex": hex(&inter)})));
                    }
                }
            }
        }
    }
    // (3) unknown fields of every wire type (incl. nested groups) at any record boundary, any nesting level
    let au = inject_unknown(&a, &mut rng, 0);
    let eu = refenc(&c.schema, m, &au, &knobs);
    sub_mark(&format!("c18 {} unknown {}", mname(m), hex(&eu[..eu.len().min(80)])));
    frag.count("unknown_field_injections");
    match (catch(|| (o.decode)(&eu)), catch(|| (o.decode)(&ea))) {
        (Ok(Ok(vu)), Ok(Ok(va))) => {
            if !vu.eq_dyn(&*va) {
                frag.violation("c18|unknown-fields-change-message", &format!("{}: with unknown fields {} without {}", mname(m), trunc(&vu.debug()), trunc(&va.debug())), case(json!({"with_unknown_hex": hex(&eu)})));
            }
        }
        (Ok(Err(e)), Ok(Ok(_))) => frag.violation("c18|unknown-fields-rejected", &format!("{}: {}", mname(m), e), case(json!({"with_unknown_hex": hex(&eu)}))),
        (Err(p), _) => frag.violation(&format!("c18|panic|{}|{}", p.site(), p.class()), &format!("{} {}", p.location, p.message), case(json!({"with_unknown_hex": hex(&eu)}))),
        _ => frag.masked("plain-decode-failed(C05)"),
    }
}

fn observe_merge(s: &PSchema, m: usize, a: &PMsgVal, b: &PMsgVal, frag: &mut Frag) {
    for f in &s.msgs[m].fields {
        let ina = a.0.iter().any(|(n, _)| *n == f.num);
        let inb = b.0.iter().any(|(n, _)| *n == f.num);
        match &f.kind {
            FKind::Plain(Label::Repeated, _) if ina && inb => frag.count("observed.repeated_accumulate"),
            FKind::Plain(_, PTy::Msg(_)) if ina && inb && f.oneof.is_none() => frag.count("observed.embedded_message_merged"),
            FKind::Plain(_, PTy::Msg(_)) if ina && inb => frag.count("observed.oneof_same_member_message_merge"),
            FKind::Plain(_, t) if ina && inb && f.oneof.is_none() => frag.count(&format!("observed.singular_last_wins.{}", t.name())),
            FKind::Map(..) if ina && inb => frag.count("observed.map_entries_from_both"),
            _ => {}
        }
        if let Some(o) = f.oneof {
            let other_in_b = s.msgs[m].fields.iter().any(|g| g.oneof == Some(o) && g.num != f.num && b.0.iter().any(|(n, _)| *n == g.num));
            if ina && other_in_b {
                frag.count("observed.oneof_member_replaced");
            }
        }
    }
}

impl Check for C18 {
    fn id(&self) -> &'static str {
        "c18"
    }
    fn rule(&self) -> String {
        "for every message type of the G_proto corpora and pairs of values (a, b): (1) decode(enc(a) ++ enc(b)) == { m = decode(enc(a)); m.merge(enc(b)) } (typed) and its re-encoding equals what the reference STREAM decoder (last-wins scalars, appended repeated fields packed+unpacked mixed, map insert-replace, oneof last-member-wins with same-member messages merged, embedded messages merged field-wise) makes of the same bytes; (2) a random interleaving of the records of a and b that keeps each repeated field's own order, same oracle; (3) unknown fields of every wire type incl. groups containing groups inserted at random record boundaries at every nesting level must not change the decoded message. distinct = (message, a, b)".into()
    }
    msg_cases!();
    fn run_case(&self, ctx: &Ctx, idx: u64, frag: &mut Frag) {
        c18_one(ctx, (idx / per_msg(ctx)) as usize, idx % per_msg(ctx), frag);
    }
    fn replay(&self, ctx: &Ctx, case: &Value, frag: &mut Frag) -> bool {
        replay_msg(ctx, case, frag, c18_one)
    }
    fn finish(&self, _ctx: &Ctx, r: &mut Report, deaths: &[Death]) {
        deaths_as_violations(r, deaths);
        for k in ["concat_vs_merge", "interleavings", "unknown_field_injections"] {
            r.floor(k, 200);
        }
        r.floor("derived.same_key_entries", 20);
        r.floor("derived.explicit_default_after_value", 20);
        for k in ["observed.repeated_accumulate", "observed.embedded_message_merged", "observed.map_entries_from_both", "observed.oneof_member_replaced"] {
            r.floor(k, 5);
        }
    }
}

// ===========================================================================
// C10 / C19

pub struct C10;
pub struct C19p;

fn pb_faults(b: &[u8], rng: &mut Rng) -> Vec<(String, &'static str, Vec<u8>)> {
    let mut v = vec![];
    for n in 0..b.len() {
        v.push((format!("trunc@{}", n), "trunc", b[..n].to_vec()));
    }
    let positions: Vec<usize> = if b.len() <= 64 { (0..b.len()).collect() } else { (0..64).map(|_| rng.usize_below(b.len())).collect() };
    for i in positions {
        for bit in 0..8 {
            let mut m = b.to_vec();
            m[i] ^= 1 << bit;
            v.push((format!("flip@{}.{}", i, bit), "bitflip", m));
        }
    }
    // length prefixes of top-level length-delimited records: boundary values
    let mut pos = 0;
    while pos < b.len() {
        let mut p = pos;
        let mut key = 0u64;
        let mut sh = 0;
        while p < b.len() {
            let byte = b[p];
            p += 1;
            key |= ((byte & 0x7f) as u64) << sh;
            sh += 7;
            if byte & 0x80 == 0 || sh > 63 {
                break;
            }
        }
        let wire = key & 7;
        match wire {
            2 => {
                let lstart = p;
                let mut len = 0u64;
                let mut sh = 0;
                while p < b.len() {
                    let byte = b[p];
                    p += 1;
                    len |= ((byte & 0x7f) as u64) << sh;
                    sh += 7;
                    if byte & 0x80 == 0 || sh > 63 {
                        break;
                    }
                }
                // a fault INSIDE the embedded message, after all of its fields were decoded: an
                // invalid key (field 1, wire type 7) appended to the payload, the length adjusted;
                // the same one level further down (last embedded record of the payload)
                {
                    let end = (p + len as usize).min(b.len());
                    let payload = &b[p.min(end)..end];
                    if let Ok(recs) = records(payload) {
                        if !recs.is_empty() && len as usize == payload.len() {
                            let rebuild = |inner: Vec<u8>| {
                                let mut m = b[..lstart].to_vec();
                                refmodel::pb::put_varint(&mut m, inner.len() as u64);
                                m.extend_from_slice(&inner);
                                m.extend_from_slice(&b[end..]);
                                m
                            };
                            let mut inner = payload.to_vec();
                            inner.push(0x0F);
                            v.push((format!("inner@{}", lstart), "inner", rebuild(inner)));
                            // depth 2: poison the last length-delimited record of the payload
                            if let Some((idx, last)) = recs.iter().enumerate().rev().find(|(_, r)| r.first().map(|k| k & 7 == 2).unwrap_or(false) && r.len() < 128) {
                                // key (1 byte assumed when < 0x80), length (1 byte as r.len() < 128), body
                                if last[0] & 0x80 == 0 && last.len() >= 2 && (last[1] as usize) == last.len() - 2 && records(&last[2..]).map(|x| !x.is_empty()).unwrap_or(false) {
                                    let mut inner: Vec<u8> = recs[..idx].concat();
                                    inner.push(last[0]);
                                    inner.push(last[1] + 1);
                                    inner.extend_from_slice(&last[2..]);
                                    inner.push(0x0F);
                                    inner.extend_from_slice(&recs[idx + 1..].concat());
                                    v.push((format!("inner2@{}", lstart), "inner", rebuild(inner)));
                                }
                            }
                        }
                    }
                }
                let rem = b.len() - p;
                for (name, val) in [("rem+1", rem as u64 + 1), ("rem+1e6", rem as u64 + 1_000_000), ("2^31-1", (1u64 << 31) - 1), ("2^32", 1u64 << 32), ("u64max", u64::MAX), ("0", 0), ("rem-1", rem.saturating_sub(1) as u64)] {
                    let mut m = b[..lstart].to_vec();
                    refmodel::pb::put_varint(&mut m, val);
                    m.extend_from_slice(&b[p..]);
                    v.push((format!("len@{}={}", lstart, name), "len", m));
                }
                p = (p + len as usize).min(b.len());
            }
            0 => {
                while p < b.len() && b[p] & 0x80 != 0 {
                    p += 1;
                }
                p = (p + 1).min(b.len());
            }
            1 => p = (p + 8).min(b.len()),
            5 => p = (p + 4).min(b.len()),
            _ => break,
        }
        if p <= pos {
            break;
        }
        pos = p;
    }
    for _ in 0..16 {
        let n = rng.usize_below(40);
        v.push(("random".into(), "unstructured", rng.bytes(n)));
    }
    v
}

fn nested(s: &PSchema, depth: usize, how: u8) -> Vec<u8> {
    // MR nested `depth` levels through field 1 (singular), 2 (repeated) or 3 (map value)
    let r = s.recursive_msg();
    let _ = r;
    let mut inner: Vec<u8> = vec![0x20, 0x07]; // x = 7
    for _ in 1..depth {
        let mut outer = vec![];
        match how {
            0 => {
                outer.push(0x0a);
                refmodel::pb::put_varint(&mut outer, inner.len() as u64);
                outer.extend_from_slice(&inner);
            }
            1 => {
                outer.push(0x12);
                refmodel::pb::put_varint(&mut outer, inner.len() as u64);
                outer.extend_from_slice(&inner);
            }
            _ => {
                // map entry { key = 1; value = inner }
                let mut e = vec![0x08, 0x01, 0x12];
                refmodel::pb::put_varint(&mut e, inner.len() as u64);
                e.extend_from_slice(&inner);
                outer.push(0x1a);
                refmodel::pb::put_varint(&mut outer, e.len() as u64);
                outer.extend_from_slice(&e);
            }
        }
        inner = outer;
    }
    inner
}

fn unknown_groups(depth: usize) -> Vec<u8> {
    groups(depth, 4999, &[])
}

/// field `num` as a group nested `depth` levels around `innermost`
fn groups(depth: usize, num: u64, innermost: &[u8]) -> Vec<u8> {
    let mut inner: Vec<u8> = innermost.to_vec();
    for _ in 0..depth {
        let mut outer = vec![];
        refmodel::pb::put_varint(&mut outer, (num << 3) | 3);
        outer.extend_from_slice(&inner);
        refmodel::pb::put_varint(&mut outer, (num << 3) | 4);
        inner = outer;
    }
    inner
}

fn c10_one(ctx: &Ctx, m: usize, k: u64, frag: &mut Frag) {
    let c = pc();
    let o = &c.ops[m];
    let f_t = (4 * c.ops.iter().map(|x| x.size_of).max().unwrap_or(64)).max(256);
    let mut rng = Rng::new(ctx.seed ^ 0x1010 ^ k ^ (m as u64) << 24);
    let mut ord = 0u64;
    // depth probes on the recursive message (first case of that message only)
    if m == c.schema.recursive_msg() && k == 0 {
        for depth in (1..=300usize).filter(|d| *d <= 110 || d % 10 == 0) {
            for how in 0..5u8 {
                ord += 1;
                // field 6 of R9: unknown to the generated R9 (skipped), a known group of the hand-written one
                let b = match how {
                    0..=2 => nested(&c.schema, depth, how),
                    3 => unknown_groups(depth),
                    _ => groups(depth - 1, 6, &[0x20, 0x07]),
                };
                let hname = ["singular-message", "repeated-message", "map-value", "unknown-group", "group-field-6"][how as usize];
                monitors::driver::checkpoint_violations(frag);
                if !sub_mark_n(ord, &format!("c10 depth kind={} depth={}", hname, depth)) {
                    continue;
                }
                frag.eval();
                frag.count(&format!("depth.{}", hname));
                let r = catch(|| (o.decode)(&b).is_ok());
                match r {
                    Err(p) => frag.violation(&format!("c10|depth|panic|{}|{}", p.site(), p.class()), &format!("{} nesting {} levels: {} {}", hname, depth, p.location, p.message), json!({"kind": hname, "depth": depth})),
                    Ok(ok) => {
                        // prost's documented recursion limit is 100: within it decoding must succeed,
                        // beyond it the recursion-limit error must come back (and the 2 MiB stack survive).
                        // A map value sits inside its entry message: two wire levels per map level.
                        let depth = if how == 2 { 2 * depth - 1 } else { depth };
                        if depth <= 99 && !ok {
                            frag.violation(&format!("c10|depth|rejected-within-limit|{}", hname), &format!("{} nested {} levels (limit 100) rejected", hname, depth), json!({"kind": hname, "depth": depth, "input_hex": hex(&b[..b.len().min(200)])}));
                        }
                        if depth > 101 && ok {
                            frag.violation(&format!("c10|depth|accepted-beyond-limit|{}", hname), &format!("{} nested {} levels accepted (documented limit 100)", hname, depth), json!({"kind": hname, "depth": depth}));
                        }
                        if depth > 101 {
                            frag.count("depth.beyond_limit_rejected");
                        }
                    }
                }
            }
        }
    }
    let x = gen_val(ctx, m, k, 0xC10);
    let base = refenc(&c.schema, m, &x, &PKnobs { packing: (k % 2) as u8, map_entry: 0 });
    if base.len() > 600 {
        return;
    }
    let faults = pb_faults(&base, &mut rng);
    let mut claim_peaks: std::collections::BTreeMap<String, Vec<(String, usize)>> = Default::default();
    for (desc, kind, bytes) in &faults {
        ord += 1;
        monitors::driver::checkpoint_violations(frag);
        if !sub_mark_n(ord, &format!("c10 {} {} kind={} {}", mname(m), desc, kind, hex(&bytes[..bytes.len().min(80)]))) {
            continue;
        }
        frag.eval();
        frag.count(&format!("gen.{}", kind));
        frag.distinct(fnv1a(format!("{}|{}|{}", mname(m), kind, desc.split('@').next().unwrap_or("")).as_bytes()));
        let case = || json!({"corpus": c.corpus, "config": c.config, "message": c.schema.full_name(m), "message_idx": m, "fault": desc, "input_hex": hex(bytes), "base_hex": hex(&base)});
        let start = alloc::window_start();
        let r = catch(|| (o.decode)(bytes).is_ok());
        let end = alloc::snap();
        let peak = (end.peak - start.live).max(0) as usize;
        let accepted = matches!(r, Ok(true));
        match r {
            Err(p) => frag.violation(&format!("c10|gen|panic|{}|{}", p.site(), p.class()), &format!("{}: decode panicked at {}: {}", mname(m), p.location, p.message), case()),
            Ok(ok) => frag.count(if ok { "gen.outcome_ok" } else { "gen.outcome_err" }),
        }
        let bound = 64 * 1024 + f_t * bytes.len();
        if end.max_req > bound || peak > bound {
            frag.violation("c10|gen|alloc-out-of-proportion", &format!("{}: input of {} bytes: largest request {} bytes, peak growth {} (bound {})", mname(m), bytes.len(), end.max_req, peak, bound), case());
        }
        // a length prefix beyond the remaining input must be rejected before anything is sized from it:
        // the peak must not depend on the claimed length
        if *kind == "len" {
            let (at, claim) = desc.split_once('=').unwrap_or((desc, ""));
            if ["rem+1", "rem+1e6", "2^31-1"].contains(&claim) {
                if accepted {
                    frag.violation("c10|gen|overlong-length-accepted", &format!("{}: length prefix {} beyond the remaining input accepted", mname(m), claim), case());
                }
                claim_peaks.entry(at.to_string()).or_default().push((claim.to_string(), peak));
            }
        }
    }
    for (at, v) in claim_peaks {
        if v.len() == 3 {
            let lo = v.iter().map(|x| x.1).min().unwrap();
            let hi = v.iter().map(|x| x.1).max().unwrap();
            frag.count("gen.claimed_length_triples");
            if hi - lo > 64 {
                frag.violation("c10|gen|allocation-depends-on-claimed-length", &format!("{}: peak allocation varies with the claimed length at {}: {:?}", mname(m), at, v), json!({"corpus": c.corpus, "config": c.config, "message": c.schema.full_name(m), "message_idx": m, "at": at, "base_hex": hex(&base)}));
            }
        }
    }
}

fn c19_one(ctx: &Ctx, m: usize, k: u64, frag: &mut Frag) {
    let c = pc();
    let o = &c.ops[m];
    let mut rng = Rng::new(ctx.seed ^ 0x1919 ^ k ^ (m as u64) << 24);
    let x = gen_val(ctx, m, k, 0xC19);
    let base = refenc(&c.schema, m, &x, &PKnobs { packing: (k % 2) as u8, map_entry: 0 });
    if base.len() > 600 {
        return;
    }
    let mut ord = 0u64;
    for (desc, kind, bytes) in pb_faults(&base, &mut rng) {
        ord += 1;
        monitors::driver::checkpoint_violations(frag);
        if !sub_mark_n(ord, &format!("c19 pb {} {} {}", mname(m), desc, hex(&bytes[..bytes.len().min(80)]))) {
            continue;
        }
        let run = || (o.decode)(&bytes).is_err();
        let failed = match catch(run) {
            Ok(f) => f,
            Err(_) => {
                frag.masked("decode-panicked(C10)");
                continue;
            }
        };
        if !failed {
            continue;
        }
        let l1 = alloc::snap().live;
        let _ = catch(run);
        let _ = catch(run);
        let l3 = alloc::snap().live;
        frag.eval();
        frag.count("pb.failed_decodes");
        frag.count(&format!("pb.failed.{}", kind));
        frag.distinct(fnv1a(format!("pb|{}|{}|{}", mname(m), kind, desc.split('@').next().unwrap_or("")).as_bytes()));
        if l3 != l1 {
            frag.violation("c19|pb|leak", &format!("{}: {} bytes stay live per failed decode (fault {})", mname(m), (l3 - l1) / 2, desc), json!({"corpus": c.corpus, "config": c.config, "message": c.schema.full_name(m), "message_idx": m, "fault": desc, "input_hex": hex(&bytes)}));
        }
    }
}

const FAULT_BASES_QUICK: u64 = 3;
const FAULT_BASES_THOROUGH: u64 = 40;

macro_rules! pfault_cases {
    () => {
        fn ncases(&self, ctx: &Ctx) -> u64 {
            pc().schema.msgs.len() as u64 * ctx.scale(FAULT_BASES_QUICK, FAULT_BASES_THOROUGH)
        }
        fn label(&self, ctx: &Ctx, idx: u64) -> String {
            let n = ctx.scale(FAULT_BASES_QUICK, FAULT_BASES_THOROUGH);
            format!("{}#{}", mname((idx / n) as usize), idx % n)
        }
        fn risky(&self, _ctx: &Ctx, _idx: u64) -> bool {
            true
        }
    };
}

impl Check for C10 {
    fn id(&self) -> &'static str {
        "c10"
    }
    fn level(&self) -> &'static str {
        "fault_enumeration"
    }
    fn rule(&self) -> String {
        "for every generated message type and base values: EVERY truncation, bit flips (all bits <= 64 B, 64 sampled byte positions above), EVERY top-level length prefix overwritten with {rem+1, rem+10^6, 2^31-1, 2^32, u64::MAX, 0, rem-1}, unstructured bytes -> Message::decode on a 2 MiB stack; oracle: Ok or Err, no panic, process alive, allocation <= 64 KiB + max(256, 4 x size_of::<T>) x len; for length prefixes beyond the remaining input: Err, and the peak allocation must be the SAME (+-64 B) for claimed lengths rem+1, rem+10^6 and 2^31-1 (nothing may be sized from the claim). Nesting depth 1..300 of embedded messages (singular, repeated, map value) and of unknown groups: within the documented limit of 100 decoding succeeds, beyond it an error comes back and the 2 MiB-stack worker survives. distinct = (message, fault kind, position)".into()
    }
    pfault_cases!();
    fn run_case(&self, ctx: &Ctx, idx: u64, frag: &mut Frag) {
        let n = ctx.scale(FAULT_BASES_QUICK, FAULT_BASES_THOROUGH);
        let ctx2 = ctx.clone();
        let local = on_stack(STACK_2MIB, move || {
            let mut f = Frag::new();
            c10_one(&ctx2, (idx / n) as usize, idx % n, &mut f);
            f
        });
        frag.merge(local);
    }
    fn replay(&self, ctx: &Ctx, case: &Value, frag: &mut Frag) -> bool {
        if case["corpus"].as_str() != Some(&pc().corpus) || case["config"].as_str() != Some(&pc().config) {
            return false;
        }
        let n = ctx.scale(FAULT_BASES_QUICK, FAULT_BASES_THOROUGH);
        match case["message_idx"].as_u64() {
            Some(m) => {
                for k in 0..n {
                    c10_one(ctx, m as usize, k, frag);
                }
                true
            }
            None => false,
        }
    }
    fn finish(&self, _ctx: &Ctx, r: &mut Report, deaths: &[Death]) {
        for d in deaths {
            let sub = d.label.split("::").nth(1).unwrap_or("").trim().to_string();
            let kind = sub.split_whitespace().find(|w| w.starts_with("kind=")).unwrap_or("kind=?").trim_start_matches("kind=");
            let what = if sub.contains("c10 depth") { "depth" } else { "gen" };
            r.frag.violation(&format!("c10|{}|death:{}|{}", what, d.class(), kind), &format!("worker died ({}) while decoding: {}", d.class(), d.label), death_json(d));
        }
        for k in ["gen.trunc", "gen.bitflip", "gen.len", "gen.unstructured"] {
            r.floor(k, 100);
        }
        r.floor("gen.claimed_length_triples", 10);
    }
}

impl Check for C19p {
    fn id(&self) -> &'static str {
        "c19"
    }
    fn level(&self) -> &'static str {
        "fault_enumeration"
    }
    fn rule(&self) -> String {
        "protobuf half: for every generated message type: every truncation / bit flip / length-prefix corruption that makes Message::decode FAIL; the live-byte count of the counting allocator must not grow between repeated decode+drop cycles".into()
    }
    pfault_cases!();
    fn run_case(&self, ctx: &Ctx, idx: u64, frag: &mut Frag) {
        let n = ctx.scale(FAULT_BASES_QUICK, FAULT_BASES_THOROUGH);
        let ctx2 = ctx.clone();
        let local = on_stack(STACK_2MIB, move || {
            let mut f = Frag::new();
            c19_one(&ctx2, (idx / n) as usize, idx % n, &mut f);
            f
        });
        frag.merge(local);
    }
    fn finish(&self, _ctx: &Ctx, r: &mut Report, deaths: &[Death]) {
        for _ in deaths {
            r.frag.masked("worker-died-during-decode(C10)");
        }
        r.floor("pb.failed_decodes", 300);
    }
}

pub fn pmain(registry: Vec<PTypeOps>, seed: u64, proto3: bool, config: &str, corpus: &str) {
    let schema = refmodel::pb::generate(seed, proto3, 4);
    pmain_schema(registry, schema, config, corpus)
}

/// the same checks over message implementations that come with their own schema
/// (the hand-written ones of the `pbrt` crate)
pub fn pmain_schema(registry: Vec<PTypeOps>, schema: PSchema, config: &str, corpus: &str) {
    assert_eq!(schema.msgs.len(), registry.len(), "registry and schema disagree");
    let _ = PCASE.set(PCase { schema, ops: registry, config: config.to_string(), corpus: corpus.to_string(), encdef: config.contains("encdef") });
    let checks: Vec<&dyn Check> = vec![&C05, &C06, &C10, &C18, &C19p];
    std::process::exit(monitors::driver::main_with(&checks));
}
