//! Generic checks over the code pilota-build generated for one IDL corpus in
//! one builder configuration. A case crate `include!`s the generated file and
//! the registry and calls `gencase::main`.

pub mod ops;
pub mod pbchecks;
pub mod sem;

use std::sync::OnceLock;

use monitors::aio::Schedule;
use monitors::alloc;
use monitors::driver::{Check, deaths_as_violations, sub_mark};
use monitors::evidence::{Ctx, Frag, Report};
use monitors::run::{Death, STACK_2MIB, catch, death_json, on_stack, thread_cpu_ns};
use pcodec::codecs::{ALL_BK, BK, WP};
use pcodec::oracle::diff;
use refmodel::faults::{FaultCfg, enumerate};
use refmodel::rng::{Rng, fnv1a, hex, unhex};
use refmodel::schema::{GenProfile, Kind, Schema, Shape, Target, VGen, canon, generate};
use refmodel::tcodec::{Knobs, Proto, decode_exact, encode, encode_with};
use refmodel::tval::{TT, TVal};
use serde_json::{Value, json};

pub use ops::{TypeOps, Val, ops};

pub struct Case {
    pub schema: Schema,
    pub targets: Vec<Target>,
    pub ops: Vec<TypeOps>,
    pub config: String,
    pub corpus: String,
    pub keep: bool,
}

static CASE: OnceLock<Case> = OnceLock::new();

pub fn case() -> &'static Case {
    CASE.get().expect("case not initialised")
}

const ALL_WP: [WP; 4] = [WP::Binary, WP::BinaryLe, WP::Compact, WP::Unchecked];
const SAFE_WP: [WP; 3] = [WP::Binary, WP::BinaryLe, WP::Compact];

fn ops_of(t: usize) -> &'static TypeOps {
    &case().ops[t]
}

fn tname(t: usize) -> String {
    format!("{}:{}", case().corpus, case().targets[t].name)
}

fn shape_kind(sh: &Shape) -> &'static str {
    match sh {
        Shape::Def(i) => match case().schema.defs[*i].kind {
            Kind::Struct => "struct",
            Kind::Exception => "exception",
            Kind::Union => "union",
            Kind::Enum(_) => "enum",
            Kind::Typedef(_) => "typedef",
        },
        Shape::Args(..) => "args",
        Shape::Result(..) => "result",
        Shape::Exception(..) => "throws",
    }
}

fn gen_value(ctx: &Ctx, t: usize, k: u64, salt: u64) -> TVal {
    let c = case();
    let mut rng = Rng::new(ctx.seed ^ salt ^ fnv1a(c.corpus.as_bytes()) ^ (t as u64) << 32 ^ k.wrapping_mul(0x9E37_79B9_7F4A_7C15));
    let mut g = VGen { s: &c.schema, rng: &mut rng, max_depth: 4, fill: (k % 3) as u8, undeclared_enums: true };
    g.gen_target(&c.targets[t].shape)
}

fn case_json(t: usize, wp: WP, x: &TVal, extra: Value) -> Value {
    let mut j = json!({"corpus": case().corpus, "config": case().config, "target": case().targets[t].name, "target_idx": t, "wp": wp.name(), "tt": x.tt() as u8,
           "value_binary_hex": hex(&encode(Proto::Binary, x)), "value": x.render(200), "extra": extra});
    if case().keep && arg_fastpath_target(t) {
        // see `viol`: can this input reach the recorded argument-type decoder defect at all?
        j["fastpath_reachable"] = json!(sem::fastpath_reachable_in(&case().schema, &case().targets[t].shape, x, false));
        j["fastpath_reachable_filled"] = json!(sem::fastpath_reachable_in(&case().schema, &case().targets[t].shape, x, true));
    }
    j
}

fn viol(frag: &mut Frag, prop: &str, key: &str, what: String, case: Value) {
    // one defect, one key: every observation on an input that carries a union
    // variant with a known id but a different wire type
    if prop == "c08" && key.contains("MISTYPED-UNION") {
        frag.violation("c08|union-variant-selected-by-id-only", &format!("[{}] {}", key.replace("MISTYPED-UNION", "mistyped union variant"), what), case);
        return;
    }
    // one defect, one key per property: with keep_unknown_fields the sync decoder
    // emitted for a struct / exception that is named directly as a method
    // argument, return or throws type takes "the rest of the buffer minus two
    // bytes" as unknown fields once all its declared fields were seen. Every
    // observation on a type whose decoding runs such a decoder is attributed to it.
    if crate::case().keep && matches!(prop, "c02" | "c08" | "c09" | "c11" | "c12" | "c13" | "c20") {
        if let Some(t) = case.get("target_idx").and_then(|v| v.as_u64()) {
            // (the async decoders do not have that code)
            let async_only = matches!(prop, "c09" | "c19") && key.contains("async_");
            // checks whose inputs are well-formed values: an input in which no instance of an
            // argument type carries all of its declared fields never reaches that exit on the
            // unchanged generator, so what it shows is something else and keeps its own key
            // (C08 / C13 decode the reference encoding of the case's value; the other checks also
            // decode pilota's own output, in which every non-optional field is present)
            let flag = if matches!(prop, "c08" | "c13") { "fastpath_reachable" } else { "fastpath_reachable_filled" };
            let cannot_reach = matches!(prop, "c02" | "c08" | "c11" | "c13" | "c20") && case.get(flag) == Some(&Value::Bool(false));
            if !async_only && !cannot_reach && arg_fastpath_target(t as usize) {
                frag.violation(&format!("{}|keep|arg-type-decoder-takes-rest-of-buffer", prop), &format!("[{}] {}", key, what), case);
                return;
            }
        }
    }
    frag.violation(&format!("{}|{}", prop, key), &what, case);
}

/// deaths attributed to the keep-mode argument-type decoder are filed under its
/// key; returns the deaths that remain to be judged by the check's own rule
fn split_fastpath_deaths(prop: &str, r: &mut Report, deaths: &[Death]) -> Vec<Death> {
    let mut rest = vec![];
    for d in deaths {
        let async_only = matches!(prop, "c09" | "c19") && d.label.contains("async_");
        if !async_only && death_on_arg_fastpath(d) {
            r.frag.violation(&format!("{}|keep|arg-type-decoder-takes-rest-of-buffer", prop), &format!("[death:{}] worker died in {}", d.class(), d.label), death_json(d));
        } else {
            rest.push(d.clone());
        }
    }
    rest
}

/// a worker death whose label names a target whose sync decoding runs the
/// keep-mode argument-type decoder (see `viol`)
fn death_on_arg_fastpath(d: &Death) -> bool {
    let c = case();
    if !c.keep {
        return false;
    }
    let mut best: Option<(usize, usize)> = None; // (name length, target)
    for t in 0..c.targets.len() {
        let n = tname(t);
        let mut from = 0;
        while let Some(p) = d.label[from..].find(&n) {
            let end = from + p + n.len();
            let next = d.label[end..].chars().next();
            if !next.map(|ch| ch.is_alphanumeric() || ch == '_').unwrap_or(false) && best.map(|b| n.len() > b.0).unwrap_or(true) {
                best = Some((n.len(), t));
            }
            from = end;
        }
    }
    best.map(|b| arg_fastpath_target(b.1)).unwrap_or(false)
}

fn arg_fastpath_target(t: usize) -> bool {
    static M: OnceLock<Vec<bool>> = OnceLock::new();
    let c = case();
    M.get_or_init(|| c.targets.iter().map(|tg| sem::reaches_arg_def(&c.schema, &tg.shape)).collect())[t]
}

/// allocation-shaped observations on generated decoders share one key per
/// (sync|async): the allocation was sized from a count on the wire
fn alloc_key(who: &str) -> String {
    format!("c09|{}|allocation-sized-from-wire-count", if who.contains("async_") { "gen.async" } else { "gen.sync" })
}

/// run a closure that calls generated code; a panic is an observation
fn guarded<T>(f: impl FnOnce() -> T) -> Result<T, monitors::run::PanicRec> {
    catch(f)
}

fn ref_decode_canon(wire: Proto, tt: TT, b: &[u8]) -> Result<TVal, String> {
    decode_exact(wire, tt, b).map(|v| canon(&v).norm_empty_maps()).map_err(|e| format!("{:?}", e))
}

// ===========================================================================
// C02 — generated types round trip under every protocol
// ===========================================================================

pub struct C02;

fn c02_one(ctx: &Ctx, t: usize, k: u64, frag: &mut Frag) {
    let c = case();
    let sh = &c.targets[t].shape;
    let x = gen_value(ctx, t, k, 0xC02);
    let tt = x.tt();
    let expected = canon(&c.schema.expected_target(sh, &x)).norm_empty_maps();
    frag.eval();
    if x.nontrivial() {
        frag.distinct(fnv1a(format!("{}{}", tname(t), x.hash64()).as_bytes()));
    }
    frag.count(&format!("kind.{}", shape_kind(sh)));
    if frag.samples.len() < 2 && k == 1 {
        frag.sample(json!({"target": tname(t), "config": c.config, "value": x.render(160)}));
    }
    let o = ops_of(t);
    // pivot value: decode reference binary bytes with the checked binary decoder
    let bin_ref = encode(Proto::Binary, &x);
    let v_bin = match guarded(|| (o.decode)(WP::Binary, &bin_ref)) {
        Ok((Ok(v), _)) => Some(v),
        Ok((Err(e), _)) => {
            viol(frag, "c02", &format!("binary|decode|rejected|{}", shape_kind(sh)), format!("{}: valid reference encoding rejected: {}", tname(t), e), case_json(t, WP::Binary, &x, json!({"input_hex": hex(&bin_ref)})));
            None
        }
        Err(p) => {
            viol(frag, "c02", &format!("binary|decode|panic|{}|{}", p.site(), p.class()), format!("{}: decode panicked at {}: {}", tname(t), p.location, p.message), case_json(t, WP::Binary, &x, json!({"input_hex": hex(&bin_ref)})));
            None
        }
    };
    for wp in ALL_WP {
        let wire = wp.wire();
        let b = encode(wire, &x);
        sub_mark(&format!("c02 {} {} decode {}", tname(t), wp.name(), hex(&b[..b.len().min(64)])));
        frag.count(&format!("{}.decode", wp.name()));
        // decode_P judged through the binary pivot
        let dec = guarded(|| (o.decode)(wp, &b));
        let v = match dec {
            Err(p) => {
                viol(frag, "c02", &format!("{}|decode|panic|{}|{}", wp.name(), p.site(), p.class()), format!("{}: decode panicked at {}: {}", tname(t), p.location, p.message), case_json(t, wp, &x, json!({"input_hex": hex(&b)})));
                continue;
            }
            Ok((Err(e), _)) => {
                viol(frag, "c02", &format!("{}|decode|rejected|{}", wp.name(), shape_kind(sh)), format!("{}: valid reference encoding rejected: {}", tname(t), e), case_json(t, wp, &x, json!({"input_hex": hex(&b)})));
                continue;
            }
            Ok((Ok(v), consumed)) => {
                if consumed != b.len() {
                    frag.count(&format!("{}.top_level_bytes_left_unread(logged)", wp.name()));
                }
                v
            }
        };
        match guarded(|| v.encode(WP::Binary, BK::BytesMut)) {
            Ok(Ok(out)) => match ref_decode_canon(Proto::Binary, tt, &out) {
                Ok(got) => {
                    if let Some(d) = diff(&expected, &got) {
                        viol(frag, "c02", &format!("{}|decode|value|{}", wp.name(), d.class), format!("{}: value decoded from {} differs at {}: expected {} got {}", tname(t), wp.name(), d.path, d.expected, d.got), case_json(t, wp, &x, json!({"input_hex": hex(&b)})));
                    }
                }
                Err(e) => viol(frag, "c02", &format!("{}|decode|reencode-invalid", wp.name()), format!("{}: binary re-encoding is not valid binary: {}", tname(t), e), case_json(t, wp, &x, json!({"reencoded_hex": hex(&out)}))),
            },
            Ok(Err(e)) => viol(frag, "c02", "binary|encode|error", format!("{}: {}", tname(t), e), case_json(t, wp, &x, json!({}))),
            Err(p) => viol(frag, "c02", &format!("binary|encode|panic|{}|{}", p.site(), p.class()), format!("{}: encode panicked at {}: {}", tname(t), p.location, p.message), case_json(t, wp, &x, json!({}))),
        }
        // encode_P judged from the pivot value
        if let Some(vb) = &v_bin {
            for bk in if wp == WP::Binary || wp == WP::Unchecked { &ALL_BK[..] } else { &ALL_BK[..1] } {
                sub_mark(&format!("c02 {} {} encode {}", tname(t), wp.name(), bk.name()));
                frag.count(&format!("{}.encode", wp.name()));
                match guarded(|| vb.encode(wp, *bk)) {
                    Ok(Ok(out)) => match ref_decode_canon(wire, tt, &out) {
                        Ok(got) => {
                            if let Some(d) = diff(&expected, &got) {
                                viol(frag, "c02", &format!("{}|encode|value|{}", wp.name(), d.class), format!("{}: bytes encoded with {} decode (reference) differently at {}: expected {} got {}", tname(t), wp.name(), d.path, d.expected, d.got), case_json(t, wp, &x, json!({"encoded_hex": hex(&out), "bk": bk.name()})));
                            }
                        }
                        Err(e) => viol(frag, "c02", &format!("{}|encode|invalid-bytes", wp.name()), format!("{}: bytes encoded with {} are not a valid encoding: {}", tname(t), wp.name(), e), case_json(t, wp, &x, json!({"encoded_hex": hex(&out), "bk": bk.name()}))),
                    },
                    Ok(Err(e)) => viol(frag, "c02", &format!("{}|encode|error", wp.name()), format!("{}: {}", tname(t), e), case_json(t, wp, &x, json!({}))),
                    Err(p) => viol(frag, "c02", &format!("{}|encode|panic|{}|{}", wp.name(), p.site(), p.class()), format!("{}: encode panicked at {}: {}", tname(t), p.location, p.message), case_json(t, wp, &x, json!({}))),
                }
            }
        }
        // typed round trip: decode_P(encode_P(v)) == v
        if let Ok(Ok(out)) = guarded(|| v.encode(wp, BK::BytesMut)) {
            match guarded(|| (o.decode)(wp, &out)) {
                Ok((Ok(v2), _)) => {
                    frag.count(&format!("{}.typed_roundtrip", wp.name()));
                    if !v2.eq_dyn(&*v) {
                        viol(frag, "c02", &format!("{}|typed-roundtrip|not-equal", wp.name()), format!("{}: decode(encode(v)) != v: {} vs {}", tname(t), trunc(&v2.debug()), trunc(&v.debug())), case_json(t, wp, &x, json!({})));
                    }
                }
                Ok((Err(e), _)) => viol(frag, "c02", &format!("{}|typed-roundtrip|rejected", wp.name()), format!("{}: own output rejected: {}", tname(t), e), case_json(t, wp, &x, json!({"encoded_hex": hex(&out)}))),
                Err(p) => viol(frag, "c02", &format!("{}|typed-roundtrip|panic|{}|{}", wp.name(), p.site(), p.class()), format!("{} {}", p.location, p.message), case_json(t, wp, &x, json!({}))),
            }
        }
        // async == sync
        if wp != WP::Unchecked {
            for sched in [Schedule::all_at_once(), Schedule::byte_at_a_time()] {
                frag.count(&format!("{}.decode_async", wp.name()));
                match guarded(|| (o.decode_async)(wp, &b, &sched)) {
                    Ok(a) => match a.out {
                        Ok(Ok(va)) => {
                            if !va.eq_dyn(&*v) {
                                viol(frag, "c02", &format!("{}|async|value-differs", wp.name()), format!("{}: decode_async {} vs decode {}", tname(t), trunc(&va.debug()), trunc(&v.debug())), case_json(t, wp, &x, json!({"input_hex": hex(&b), "schedule": sched.render()})));
                            }
                        }
                        Ok(Err(e)) => viol(frag, "c02", &format!("{}|async|rejected", wp.name()), format!("{}: decode_async failed where decode succeeded: {}", tname(t), e), case_json(t, wp, &x, json!({"input_hex": hex(&b), "schedule": sched.render()}))),
                        Err(h) => viol(frag, "c02", &format!("{}|async|hang", wp.name()), format!("{}: {}", tname(t), h), case_json(t, wp, &x, json!({"input_hex": hex(&b)}))),
                    },
                    Err(p) => viol(frag, "c02", &format!("{}|async|panic|{}|{}", wp.name(), p.site(), p.class()), format!("{} {}", p.location, p.message), case_json(t, wp, &x, json!({"input_hex": hex(&b)}))),
                }
            }
        }
    }
}

fn trunc(s: &str) -> String {
    s.chars().take(160).collect()
}

const VALUES_PER_TARGET_QUICK: u64 = 24;
const VALUES_PER_TARGET_THOROUGH: u64 = 400;

fn per_target(ctx: &Ctx) -> u64 {
    ctx.scale(VALUES_PER_TARGET_QUICK, VALUES_PER_TARGET_THOROUGH)
}

macro_rules! target_value_cases {
    () => {
        fn ncases(&self, ctx: &Ctx) -> u64 {
            case().targets.len() as u64 * per_target(ctx)
        }
        fn label(&self, ctx: &Ctx, idx: u64) -> String {
            let t = (idx / per_target(ctx)) as usize;
            format!("{}#{}", tname(t), idx % per_target(ctx))
        }
    };
}

impl Check for C02 {
    fn id(&self) -> &'static str {
        "c02"
    }
    fn rule(&self) -> String {
        "program = IDL corpus from G_thrift/plain (seeded) compiled by pilota-build in configurations {single file, split files, keep_unknown_fields}; for EVERY type the corpus declares or synthesises (structs, exceptions, unions, enums, typedefs, *ArgsSend/Recv, *ResultSend/Recv, *Exception) and N schema-directed values (minimal / random / all fields set; undeclared enum numbers; unions one variant each): reference encoder -> decode_P -> encode_binary -> reference decoder must equal the value with defaults filled (field order and set/map order free); decode_binary -> encode_P -> reference decoder likewise; decode_P(encode_P(v)) == v; decode_async == decode (all-at-once and byte-at-a-time); P in {binary, binary_le, compact, unchecked}. distinct = (type, structural hash) of non-trivial values".into()
    }
    target_value_cases!();
    fn run_case(&self, ctx: &Ctx, idx: u64, frag: &mut Frag) {
        let t = (idx / per_target(ctx)) as usize;
        c02_one(ctx, t, idx % per_target(ctx), frag);
    }
    fn replay(&self, ctx: &Ctx, cj: &Value, frag: &mut Frag) -> bool {
        replay_common(ctx, cj, frag, |ctx, t, k, frag| c02_one(ctx, t, k, frag))
    }
    fn finish(&self, _ctx: &Ctx, r: &mut Report, deaths: &[Death]) {
        let deaths = &split_fastpath_deaths("c02", r, deaths)[..];
        deaths_as_violations(r, deaths);
        r.assume("values enter the typed world only as bytes from the reference encoder and leave it as bytes read by the reference decoder; NaN doubles are not generated (typed equality is PartialEq)");
        r.assume("expected value = the generated value with absent default-requiredness fields and absent optional fields that have an IDL default filled in (schema model), compared as id-keyed trees");
        for wp in ALL_WP {
            r.floor(&format!("{}.decode", wp.name()), 100);
            r.floor(&format!("{}.encode", wp.name()), 100);
        }
        for k in ["struct", "union", "enum", "typedef", "args", "result"] {
            r.floor(&format!("kind.{}", k), 1);
        }
    }
}

fn replay_common(ctx: &Ctx, cj: &Value, frag: &mut Frag, f: impl Fn(&Ctx, usize, u64, &mut Frag)) -> bool {
    // replays re-run all values of the named target (the generator is
    // deterministic in seed/corpus/target); the stored input is in the file
    // for inspection
    let name = cj["target"].as_str().unwrap_or("");
    if cj["corpus"].as_str() != Some(&case().corpus) || cj["config"].as_str() != Some(&case().config) {
        return false;
    }
    match case().targets.iter().position(|t| t.name == name) {
        Some(t) => {
            for k in 0..per_target(ctx) {
                f(ctx, t, k, frag);
            }
            true
        }
        None => false,
    }
}

// ===========================================================================
// C04 (generated half) — Message::size == bytes Message::encode writes
// ===========================================================================

pub struct C04;

fn c04_one(ctx: &Ctx, t: usize, k: u64, frag: &mut Frag) {
    let c = case();
    // with keep_unknown_fields the value also carries retained unknown fields
    let x0 = gen_value(ctx, t, k, 0xC04);
    let mut rng = Rng::new(ctx.seed ^ k ^ 0x4444);
    let x = if c.keep && k % 2 == 0 { sem::add_unknown_fields(&c.schema, &c.targets[t].shape, &x0, &mut rng) } else { x0 };
    frag.eval();
    if x.nontrivial() {
        frag.distinct(fnv1a(format!("{}{}", tname(t), x.hash64()).as_bytes()));
    }
    let o = ops_of(t);
    let b = encode(Proto::Binary, &x);
    let v = match guarded(|| (o.decode)(WP::Binary, &b)) {
        Ok((Ok(v), _)) => v,
        _ => {
            frag.masked("typed-value-unobtainable(C02/C13)");
            return;
        }
    };
    if frag.samples.len() < 2 && k == 2 {
        frag.sample(json!({"target": tname(t), "config": c.config, "value": x.render(160)}));
    }
    for wp in SAFE_WP {
        sub_mark(&format!("c04 {} {}", tname(t), wp.name()));
        let r = guarded(|| (v.size(wp), v.encode(wp, BK::BytesMut)));
        frag.count(&format!("gen.{}.size_vs_encode", wp.name()));
        match r {
            Ok((n, Ok(out))) => {
                if n != out.len() {
                    viol(frag, "c04", &format!("gen|{}|size-mismatch|{}", wp.name(), shape_kind(&c.targets[t].shape)), format!("{}: size() = {} but encode wrote {} bytes", tname(t), n, out.len()), case_json(t, wp, &x, json!({"encoded_hex": hex(&out)})));
                }
            }
            Ok((_, Err(e))) => viol(frag, "c04", &format!("gen|{}|encode-error", wp.name()), format!("{}: {}", tname(t), e), case_json(t, wp, &x, json!({}))),
            Err(p) => viol(frag, "c04", &format!("gen|{}|panic|{}|{}", wp.name(), p.site(), p.class()), format!("{}: size/encode panicked at {}: {}", tname(t), p.location, p.message), case_json(t, wp, &x, json!({}))),
        }
    }
}

impl Check for C04 {
    fn id(&self) -> &'static str {
        "c04"
    }
    fn rule(&self) -> String {
        "generated half: for every declared/synthesised type of the corpus and N schema-directed values (with keep_unknown_fields: also values carrying retained unknown fields), Message::size(P) == len(Message::encode(P)) for P in {binary, binary_le, compact}".into()
    }
    target_value_cases!();
    fn run_case(&self, ctx: &Ctx, idx: u64, frag: &mut Frag) {
        let t = (idx / per_target(ctx)) as usize;
        c04_one(ctx, t, idx % per_target(ctx), frag);
    }
    fn replay(&self, ctx: &Ctx, cj: &Value, frag: &mut Frag) -> bool {
        replay_common(ctx, cj, frag, |ctx, t, k, frag| c04_one(ctx, t, k, frag))
    }
    fn finish(&self, _ctx: &Ctx, r: &mut Report, deaths: &[Death]) {
        deaths_as_violations(r, deaths);
        for wp in SAFE_WP {
            r.floor(&format!("gen.{}.size_vs_encode", wp.name()), 100);
        }
    }
}

// ===========================================================================
// C20 — generated Default values are the IDL defaults
// ===========================================================================

pub struct C20;

fn c20_one(t: usize, frag: &mut Frag) {
    let c = case();
    let sh = &c.targets[t].shape;
    let (fields, is_union, _) = c.schema.target_fields(sh);
    let is_struct = match sh {
        Shape::Def(i) => matches!(c.schema.defs[*i].kind, Kind::Struct | Kind::Exception),
        Shape::Args(..) => true,
        _ => false,
    };
    if !is_struct || is_union {
        return;
    }
    frag.eval();
    let o = ops_of(t);
    let expected = canon(&c.schema.zero_struct(&fields)).norm_empty_maps();
    frag.distinct(fnv1a(format!("{}{}", tname(t), expected.hash64()).as_bytes()));
    for f in &fields {
        if let Some(l) = &f.default {
            frag.count(&format!("default_literal.{}.{}", lit_kind(l), ty_kind(&c.schema, &f.ty)));
        }
        frag.count(&format!("requiredness.{:?}", f.req));
    }
    if frag.samples.len() < 3 {
        frag.sample(json!({"target": tname(t), "expected_default": expected.render(200)}));
    }
    let cj = || json!({"corpus": c.corpus, "config": c.config, "target": c.targets[t].name, "target_idx": t, "expected_default": expected.render(300)});
    sub_mark(&format!("c20 {}", tname(t)));
    let d = match guarded(|| (o.default)()) {
        Ok(d) => d,
        Err(p) => {
            viol(frag, "c20", &format!("default-panic|{}|{}", p.site(), p.class()), format!("{}: Default::default() panicked at {}: {}", tname(t), p.location, p.message), cj());
            return;
        }
    };
    match guarded(|| d.encode(WP::Binary, BK::BytesMut)) {
        Ok(Ok(out)) => match decode_exact(Proto::Binary, TT::Struct, &out) {
            Ok(got_raw) => {
                // valid message of the schema: every field id carries its declared wire type
                if let Some(w) = sem::conforms(&c.schema, &fields, is_union, &got_raw) {
                    viol(frag, "c20", "default-encoding-violates-schema", format!("{}: {}", tname(t), w), cj());
                }
                let got = canon(&got_raw).norm_empty_maps();
                if let Some(df) = diff(&expected, &got) {
                    viol(frag, "c20", &format!("default-value|{}", df.class), format!("{}: Default differs from the IDL defaults at {}: expected {} got {}", tname(t), df.path, df.expected, df.got), cj());
                }
            }
            Err(e) => viol(frag, "c20", "default-encoding-invalid", format!("{}: encode(default()) is not valid binary: {:?}", tname(t), e), cj()),
        },
        Ok(Err(e)) => viol(frag, "c20", "default-encode-error", format!("{}: {}", tname(t), e), cj()),
        Err(p) => viol(frag, "c20", &format!("default-encode-panic|{}|{}", p.site(), p.class()), format!("{} {}", p.location, p.message), cj()),
    }
    // decode(empty struct) == default whenever that decode succeeds
    for wp in [WP::Binary, WP::Compact] {
        match guarded(|| (o.decode)(wp, &[0u8])) {
            Ok((Ok(v), _)) => {
                frag.count("empty_struct_decoded_ok");
                if !v.eq_dyn(&*d) {
                    viol(frag, "c20", &format!("empty-decode-differs|{}", wp.name()), format!("{}: decode(empty struct) = {} but default() = {}", tname(t), trunc(&v.debug()), trunc(&d.debug())), cj());
                }
            }
            Ok((Err(_), _)) => frag.count("empty_struct_rejected(required fields)"),
            Err(p) => viol(frag, "c20", &format!("empty-decode-panic|{}|{}|{}", wp.name(), p.site(), p.class()), format!("{} {}", p.location, p.message), cj()),
        }
    }
}

fn lit_kind(l: &refmodel::schema::Lit) -> &'static str {
    use refmodel::schema::Lit::*;
    match l {
        Int(_) => "int",
        Dbl(_) => "decimal",
        Str(_) => "string",
        Bool(_) => "bool",
        EnumMember(..) => "enum_member",
        Const(_) => "const_ref",
        List(_) => "list_literal",
        Map(_) => "map_literal",
        EmptyBrackets => "empty_brackets",
        Struct(_) => "struct_literal",
    }
}

fn ty_kind(s: &Schema, t: &refmodel::schema::Ty) -> &'static str {
    use refmodel::schema::Ty::*;
    let typedefd = matches!(t, Ref(i) if matches!(s.defs[*i].kind, Kind::Typedef(_)));
    match s.resolve(t) {
        Bool => "bool",
        I8 | I16 | I32 | I64 => {
            if typedefd { "typedef_int" } else { "int" }
        }
        Double => "double",
        Str => {
            if typedefd { "typedef_string" } else { "string" }
        }
        Bin => "binary",
        Uuid => "uuid",
        List(_) => "list",
        Set(_) => "set",
        Map(..) => "map",
        Ref(_) => "enum_or_struct",
    }
}

impl Check for C20 {
    fn id(&self) -> &'static str {
        "c20"
    }
    fn rule(&self) -> String {
        "program = IDL corpus from the defaults sub-grammar of G_thrift (int/bool-from-int/double-from-int/decimal/string/binary/enum by name and by number/constant by reference/list/set/map/empty-bracket literals, typedef'd targets, every requiredness); for EVERY generated struct, exception and argument struct: reference-decode(encode_binary(T::default())) == the default computed by the schema model (IDL default where present, as present for optional fields; otherwise the empty value or absence), every field id carries its declared wire type, and decode(<stop byte>) == T::default() whenever that decode succeeds. distinct = (type, expected default)".into()
    }
    fn ncases(&self, _ctx: &Ctx) -> u64 {
        case().targets.len() as u64
    }
    fn label(&self, _ctx: &Ctx, idx: u64) -> String {
        tname(idx as usize)
    }
    fn run_case(&self, _ctx: &Ctx, idx: u64, frag: &mut Frag) {
        c20_one(idx as usize, frag);
    }
    fn replay(&self, _ctx: &Ctx, cj: &Value, frag: &mut Frag) -> bool {
        if cj["corpus"].as_str() != Some(&case().corpus) || cj["config"].as_str() != Some(&case().config) {
            return false;
        }
        match case().targets.iter().position(|t| Some(t.name.as_str()) == cj["target"].as_str()) {
            Some(t) => {
                c20_one(t, frag);
                true
            }
            None => false,
        }
    }
    fn finish(&self, _ctx: &Ctx, r: &mut Report, deaths: &[Death]) {
        deaths_as_violations(r, deaths);
        r.assume("default model: IDL literal evaluated against the declared type (bool from int: non-zero is true; double from int; enum by member or number; constants dereferenced); unions and result types are not structs and are not judged");
    }
}

// ===========================================================================
// C08 — generated decoders are tolerant readers
// ===========================================================================

pub struct C08;

fn c08_one(ctx: &Ctx, t: usize, k: u64, frag: &mut Frag) {
    let c = case();
    let sh = &c.targets[t].shape;
    let x0 = gen_value(ctx, t, k, 0xC08);
    if x0.tt() != TT::Struct {
        return;
    }
    let mut rng = Rng::new(ctx.seed ^ 0x8888 ^ (t as u64) << 20 ^ k);
    let (xw, opsused) = sem::evolve(&c.schema, sh, &x0, &mut rng);
    let (expect, err_also_ok, mistyped_union) = sem::project2(&c.schema, sh, &xw);
    let union_extra = sem::last_union_had_extra_unknown_fields();
    frag.eval();
    frag.distinct(fnv1a(format!("{}{}", tname(t), xw.hash64()).as_bytes()));
    for o in &opsused {
        frag.count(&format!("evolve.{}", o));
    }
    match &expect {
        Ok(_) => frag.count("expected.ok"),
        Err(e) => frag.count(&format!("expected.err.{}", e)),
    }
    if frag.samples.len() < 2 && k == 3 {
        frag.sample(json!({"target": tname(t), "writer_value": xw.render(160), "evolution": opsused, "expected": match &expect { Ok(v) => v.render(120), Err(e) => format!("Err({})", e) }}));
    }
    let o = ops_of(t);
    // violations on inputs that carry a union variant with a known id but another
    // wire type are keyed as such (one defect: union arms match on the id only)
    let op1 = if mistyped_union { "MISTYPED-UNION".to_string() } else { opsused.first().cloned().unwrap_or_else(|| "none".into()) };
    if mistyped_union {
        frag.count("inputs_with_mistyped_union_variant");
    }
    // with keep_unknown_fields the retained bytes are protocol specific, so the
    // binary pivot is only meaningful for the binary family
    let wps: &[WP] = if c.keep { &[WP::Binary, WP::Unchecked] } else { &ALL_WP };
    for wp in wps.iter().copied() {
        let b = encode(wp.wire(), &xw);
        sub_mark(&format!("c08 {} {} op={} {}", tname(t), wp.name(), op1, hex(&b[..b.len().min(64)])));
        frag.count(&format!("{}.evolved_decodes", wp.name()));
        let cj = || case_json(t, wp, &xw, json!({"input_hex": hex(&b), "evolution": opsused, "reader_value": x0.render(200)}));
        let r = guarded(|| (o.decode)(wp, &b));
        match (r, &expect) {
            (Err(p), _) => viol(frag, "c08", &format!("{}|panic:{}:{}|{}", wp.name(), p.site(), p.class(), op1), format!("{}: decode panicked at {}: {}", tname(t), p.location, p.message), cj()),
            (Ok((Ok(v), _)), Ok(exp)) => match guarded(|| v.encode(WP::Binary, BK::BytesMut)) {
                Ok(Ok(out)) => match ref_decode_canon(Proto::Binary, TT::Struct, &out) {
                    Ok(got) => {
                        // with keep_unknown_fields the re-encoding also carries the unknown
                        // fields; project it onto the reader schema before comparing
                        let got = if c.keep { sem::project(&c.schema, sh, &got).map(|g| canon(&g).norm_empty_maps()).unwrap_or(got) } else { got };
                        let exp = canon(exp).norm_empty_maps();
                        if let Some(d) = diff(&exp, &got) {
                            viol(frag, "c08", &format!("{}|wrong-value|{}", wp.name(), op1), format!("{}: decoded value differs at {}: expected {} got {} (writer evolution {:?})", tname(t), d.path, d.expected, d.got, opsused), cj());
                        }
                    }
                    Err(e) => viol(frag, "c08", &format!("{}|reencode-invalid", wp.name()), format!("{}: {}", tname(t), e), cj()),
                },
                _ => frag.masked("encode-failed(C02)"),
            },
            // a retaining reader keeps an unknown union variant instead of failing: the
            // statement allows failing there, it does not demand it
            (Ok((Ok(_), _)), Err(why)) if c.keep && why.starts_with("union-without") => frag.count("keep.union_without_known_variant_retained(allowed)"),
            (Ok((Ok(_), _)), Err(_)) if err_also_ok => frag.count("not_judged.union_with_several_fields"),
            (Ok((Ok(v), _)), Err(why)) => viol(frag, "c08", &format!("{}|accepted-but-must-fail:{}|{}", wp.name(), why, op1), format!("{}: expected an error ({}) but decode returned {}", tname(t), why, trunc(&v.debug())), cj()),
            (Ok((Err(_), _)), Ok(_)) if err_also_ok => frag.count("required_with_default_absent.rejected(allowed)"),
            // with keep_unknown_fields a union retains an unknown field AS its value: next to a known
            // variant that is "several fields" to it (such a value comes from no writer schema)
            (Ok((Err(_), _)), Ok(_)) if c.keep && union_extra => frag.count("keep.union_with_known_and_unknown_fields.rejected(allowed)"),
            (Ok((Err(e), _)), Ok(_)) => {
                viol(frag, "c08", &format!("{}|rejected-well-formed|{}", wp.name(), op1), format!("{}: well-formed input from an evolved writer rejected: {} (evolution {:?})", tname(t), e, opsused), cj())
            }
            (Ok((Err(_), _)), Err(_)) => frag.count("agree.err"),
        }
    }
    // metamorphic: known fields decode identically with and without the surrounding unknown fields
    if let Ok(_) = &expect {
        let stripped = sem::strip_unknown(&c.schema, sh, &xw);
        if stripped != xw {
            for wp in [WP::Binary, WP::Compact] {
                let b1 = encode(wp.wire(), &xw);
                let b2 = encode(wp.wire(), &stripped);
                if let (Ok((Ok(v1), _)), Ok((Ok(v2), _))) = (guarded(|| (o.decode)(wp, &b1)), guarded(|| (o.decode)(wp, &b2))) {
                    frag.count("metamorphic.with_vs_without_unknown");
                    if !c.keep && !v1.eq_dyn(&*v2) {
                        viol(frag, "c08", &format!("{}|metamorphic|unknown-fields-change-known", wp.name()), format!("{}: {} vs {}", tname(t), trunc(&v1.debug()), trunc(&v2.debug())), case_json(t, wp, &xw, json!({"evolution": opsused})));
                    }
                }
            }
        }
    }
}

impl Check for C08 {
    fn id(&self) -> &'static str {
        "c08"
    }
    fn risky(&self, _ctx: &Ctx, _idx: u64) -> bool {
        true
    }
    fn rule(&self) -> String {
        "program = G_thrift corpus; case = (reader type R, value written under an evolved writer schema): random composition of add-field (any wire type, any unknown id, any position, any nesting level incl. list/set elements and map values), remove-field, retype-field (same id, different wire type; also union variants), reorder, unknown-union-variant, second-union-variant, undeclared enum number. Expected outcome computed by the schema model: Err iff a required field is absent or a union carries no known variant (empty void result = ok) or more than one; otherwise Ok with the projection onto R (unknown ids and mismatched wire types dropped, defaults filled). All four protocols; plus metamorphic check that stripping unknown fields does not change the typed value. distinct = (type, writer value hash)".into()
    }
    target_value_cases!();
    fn run_case(&self, ctx: &Ctx, idx: u64, frag: &mut Frag) {
        let t = (idx / per_target(ctx)) as usize;
        c08_one(ctx, t, idx % per_target(ctx), frag);
    }
    fn replay(&self, ctx: &Ctx, cj: &Value, frag: &mut Frag) -> bool {
        replay_common(ctx, cj, frag, |ctx, t, k, frag| c08_one(ctx, t, k, frag))
    }
    fn finish(&self, _ctx: &Ctx, r: &mut Report, deaths: &[Death]) {
        let deaths = &split_fastpath_deaths("c08", r, deaths)[..];
        for d in deaths {
            // sub-marker: "c08 <type> <wp> op=<op> <hex>"
            let sub = d.label.split("::").nth(1).unwrap_or("").trim().to_string();
            let mut it = sub.split_whitespace();
            let _ = it.next();
            let _ = it.next();
            let wp = it.next().unwrap_or("?");
            let op = it.next().unwrap_or("op=?").trim_start_matches("op=");
            if op == "MISTYPED-UNION" {
                r.frag.violation("c08|union-variant-selected-by-id-only", &format!("[{} death:{}] worker died while decoding an evolved message: {}", wp, d.class(), d.label), death_json(d));
            } else {
                r.frag.violation(&format!("c08|{}|death:{}|{}", wp, d.class(), op), &format!("worker died ({}) while decoding an evolved message: {}", d.class(), d.label), death_json(d));
            }
        }
        r.assume("evolution is applied to the value tree (equivalent to encoding under the writer schema); retyping is applied to struct fields and union variants, not to container element types");
        for op in ["add_field", "remove_field", "retype_field", "reorder", "unknown_union_variant", "second_union_variant", "retype_union_variant", "unknown_fields_around_union_variant"] {
            r.floor(&format!("evolve.{}", op), 5);
        }
        r.floor("expected.ok", 50);
        for wp in ALL_WP {
            r.floor(&format!("{}.evolved_decodes", wp.name()), 100);
        }
    }
}

// ===========================================================================
// C13 — retained unknown fields survive re-encoding
// ===========================================================================

pub struct C13;

fn c13_one(ctx: &Ctx, t: usize, k: u64, frag: &mut Frag) {
    let c = case();
    let sh = &c.targets[t].shape;
    let x0 = gen_value(ctx, t, k, 0xC13);
    if x0.tt() != TT::Struct {
        return;
    }
    let mut rng = Rng::new(ctx.seed ^ 0x1313 ^ (t as u64) << 20 ^ k);
    // k % 4 == 0: no unknown fields at all (retention must not change anything)
    let mut xw = if k % 4 == 0 { x0.clone() } else { sem::add_unknown_fields(&c.schema, sh, &x0, &mut rng) };
    let (fields, is_union, _) = c.schema.target_fields(sh);
    if !matches!(sh, Shape::Def(_)) {
        // the argument/result structs synthesised for a method are not "types in
        // the file": unknown fields are only placed inside the declared types they carry
        if let TVal::Struct(fs) = &mut xw {
            fs.retain(|(id, _)| fields.iter().any(|f| f.id == *id));
        }
    }
    let expected = canon(&sem::expected_keep(&c.schema, &fields, is_union, &xw)).norm_empty_maps();
    frag.eval();
    frag.distinct(fnv1a(format!("{}{}", tname(t), xw.hash64()).as_bytes()));
    sem::count_unknown(&c.schema, sh, &xw, frag);
    if matches!(sh, Shape::Args(..)) {
        frag.count("position.method_argument_type");
    }
    if frag.samples.len() < 2 && k == 1 {
        frag.sample(json!({"target": tname(t), "writer_value": xw.render(200)}));
    }
    let b = encode(Proto::Binary, &xw);
    let o = ops_of(t);
    for wp in [WP::Binary, WP::Unchecked] {
        sub_mark(&format!("c13 {} {} {}", tname(t), wp.name(), hex(&b[..b.len().min(64)])));
        frag.count(&format!("{}.retain_decodes", wp.name()));
        let cj = || case_json(t, wp, &xw, json!({"input_hex": hex(&b), "reader_value": x0.render(200)}));
        match guarded(|| (o.decode)(wp, &b)) {
            Err(p) => viol(frag, "c13", &format!("{}|decode-panic|{}|{}", wp.name(), p.site(), p.class()), format!("{}: {} {}", tname(t), p.location, p.message), cj()),
            Ok((Err(e), _)) => {
                let what = if k % 4 == 0 { "no-unknown-fields" } else { "with-unknown-fields" };
                viol(frag, "c13", &format!("{}|rejected|{}|{}", wp.name(), what, shape_kind(sh)), format!("{}: valid message rejected by the retaining reader: {}", tname(t), e), cj())
            }
            Ok((Ok(v), consumed)) => {
                if consumed != b.len() {
                    viol(frag, "c13", &format!("{}|consumed", wp.name()), format!("{}: consumed {} of {} bytes", tname(t), consumed, b.len()), cj());
                }
                for ewp in [WP::Binary, WP::Unchecked] {
                    match guarded(|| v.encode(ewp, BK::LinkedOn)) {
                        Ok(Ok(out)) => match ref_decode_canon(Proto::Binary, TT::Struct, &out) {
                            Ok(got) => {
                                if let Some(d) = diff(&expected, &got) {
                                    viol(frag, "c13", &format!("{}->{}|lost-or-changed|{}", wp.name(), ewp.name(), d.class), format!("{}: re-encoded message differs at {}: expected {} got {}", tname(t), d.path, d.expected, d.got), cj());
                                }
                            }
                            Err(e) => viol(frag, "c13", &format!("{}->{}|reencode-invalid", wp.name(), ewp.name()), format!("{}: re-encoded bytes are not valid binary: {} ({})", tname(t), e, hex(&out[..out.len().min(80)])), cj()),
                        },
                        Ok(Err(e)) => viol(frag, "c13", &format!("{}->{}|encode-error", wp.name(), ewp.name()), e, cj()),
                        Err(p) => viol(frag, "c13", &format!("{}->{}|encode-panic|{}|{}", wp.name(), ewp.name(), p.site(), p.class()), format!("{} {}", p.location, p.message), cj()),
                    }
                }
            }
        }
    }
}

impl Check for C13 {
    fn id(&self) -> &'static str {
        "c13"
    }
    fn risky(&self, _ctx: &Ctx, _idx: u64) -> bool {
        true
    }
    fn rule(&self) -> String {
        "program = G_thrift corpus compiled with keep_unknown_fields; case = (reader type incl. method-argument types, value carrying extra fields of every wire type with ids unknown to the reader: before/between/after known fields, inside nested structs, list/set elements, map values, union-typed fields; every 4th case carries NO unknown field). Oracle: decode with the checked and the unchecked binary reader, re-encode with both writers, reference-decode: equal, as an id-keyed tree, to the original with the reader's defaults filled in and every unknown field verbatim. distinct = (type, writer value hash)".into()
    }
    target_value_cases!();
    fn run_case(&self, ctx: &Ctx, idx: u64, frag: &mut Frag) {
        if !case().keep {
            return;
        }
        let t = (idx / per_target(ctx)) as usize;
        c13_one(ctx, t, idx % per_target(ctx), frag);
    }
    fn replay(&self, ctx: &Ctx, cj: &Value, frag: &mut Frag) -> bool {
        replay_common(ctx, cj, frag, |ctx, t, k, frag| c13_one(ctx, t, k, frag))
    }
    fn finish(&self, _ctx: &Ctx, r: &mut Report, deaths: &[Death]) {
        let deaths = &split_fastpath_deaths("c13", r, deaths)[..];
        for d in deaths {
            let sub = d.label.split("::").nth(1).unwrap_or("").trim().to_string();
            let mut it = sub.split_whitespace();
            let _ = it.next();
            let _ = it.next();
            let wp = it.next().unwrap_or("?");
            r.frag.violation(&format!("c13|{}|death|{}", wp, d.class()), &format!("worker died ({}) in {}", d.class(), d.label), death_json(d));
        }
        if case().keep {
            for tt in ["bool", "i8", "i16", "i32", "i64", "double", "binary", "struct", "map", "set", "list", "uuid"] {
                r.floor(&format!("unknown.{}", tt), 3);
            }
            for p in ["top", "nested_struct", "list_element", "map_value"] {
                r.floor(&format!("position.{}", p), 3);
            }
            r.floor("binary.retain_decodes", 100);
            r.floor("unchecked.retain_decodes", 100);
        }
    }
}

// ===========================================================================
// C09 (generated half) + C19 — totality and leak freedom of generated decoders
// ===========================================================================

pub struct C09;
pub struct C19;

fn fault_inputs(ctx: &Ctx, t: usize, k: u64, wp: WP) -> (TVal, Vec<u8>, Vec<refmodel::faults::Fault>) {
    let x = gen_value(ctx, t, k, 0xC09);
    let (b, layout) = encode_with(wp.wire(), &x, &Knobs::default());
    let mut rng = Rng::new(ctx.seed ^ k ^ 0x99);
    let faults = if b.len() <= 400 {
        enumerate(wp.wire(), &b, &layout, &FaultCfg { all_bits_upto: 96, sample_bits: 96, truncations: true }, &mut rng)
    } else {
        vec![]
    };
    (x, b, faults)
}

fn c09_one(ctx: &Ctx, t: usize, k: u64, frag: &mut Frag) {
    let c = case();
    let o = ops_of(t);
    // per input byte: a container count is at best checked against the bytes that remain, so a
    // pre-sized container of the largest element type the corpus declares is proportionate
    let f_t = (4 * c.ops.iter().map(|x| x.size_of).max().unwrap_or(64)).max(256);
    let mut ord: u64 = 0;
    for wp in SAFE_WP {
        let (x, base, faults) = fault_inputs(ctx, t, k, wp);
        let base_hex = hex(&base);
        frag.add("fault_positions_total", faults.len() as u64);
        for (fi, f) in faults.iter().enumerate() {
            for is_async in [false, true] {
                if is_async && fi % 3 != 0 {
                    continue;
                }
                let who = format!("gen.{}{}", if is_async { "async_" } else { "" }, wp.name());
                ord += 1;
                monitors::driver::checkpoint_violations(frag);
                if !monitors::driver::sub_mark_n(ord, &format!("c09 {} {} {} kind={} {}", who, tname(t), f.desc, f.kind, hex(&f.bytes[..f.bytes.len().min(80)]))) {
                    continue;
                }
                frag.eval();
                frag.count(&format!("{}.{}", who, f.kind));
                frag.distinct(fnv1a(format!("{}|{}|{}|{}", who, f.kind, f.at, shape_kind(&c.targets[t].shape)).as_bytes()));
                let cj = || json!({"corpus": c.corpus, "config": c.config, "target": c.targets[t].name, "target_idx": t, "wp": wp.name(), "async": is_async, "fault": f.desc, "input_hex": hex(&f.bytes), "base_hex": base_hex, "value": x.render(120)});
                let start = alloc::window_start();
                let c0 = thread_cpu_ns();
                let r = guarded(|| {
                    if is_async {
                        let sched = if fi % 2 == 0 { Schedule::all_at_once() } else { Schedule::byte_at_a_time() };
                        let a = (o.decode_async)(wp, &f.bytes, &sched);
                        match a.out {
                            Ok(r) => Ok(r.is_ok()),
                            Err(h) => Err(h),
                        }
                    } else {
                        Ok((o.decode)(wp, &f.bytes).0.is_ok())
                    }
                });
                let cpu = thread_cpu_ns() - c0;
                let end = alloc::snap();
                let peak = (end.peak - start.live).max(0) as usize;
                match r {
                    Err(p) if p.message.contains("capacity overflow") || p.message.contains("Hash table capacity") => {
                        frag.violation(&alloc_key(&who), &format!("[{} panic] {}: {} at {}", who, tname(t), p.message, p.location), cj())
                    }
                    Err(p) => viol(frag, "c09", &format!("{}|panic|{}|{}", who, p.site(), p.class()), format!("{}: decode panicked at {}: {}", tname(t), p.location, p.message), cj()),
                    Ok(Err(h)) => viol(frag, "c09", &format!("{}|hang", who), format!("{}: {}", tname(t), h), cj()),
                    Ok(Ok(ok)) => {
                        frag.count(&format!("{}.outcome_{}", who, if ok { "ok" } else { "err" }));
                        if ok && f.strict_prefix && x.tt() == TT::Struct {
                            viol(frag, "c09", &format!("{}|prefix-accepted|{}", who, shape_kind(&c.targets[t].shape)), format!("{}: a strict prefix ({} of {} bytes) of a valid struct encoding was accepted", tname(t), f.bytes.len(), base.len()), cj());
                        }
                    }
                }
                let bound = 64 * 1024 + f_t * f.bytes.len();
                if end.max_req > bound || peak > bound {
                    frag.violation(&alloc_key(&who), &format!("[{} {}] {}: input of {} bytes: largest single request {} bytes, peak growth {} (bound {})", who, f.kind, tname(t), f.bytes.len(), end.max_req, peak, bound), cj());
                }
                if cpu > 20_000_000 + 50_000 * f.bytes.len() as u64 {
                    frag.count("cpu_outlier(logged)");
                }
            }
        }
    }
}

fn c19_one(ctx: &Ctx, t: usize, k: u64, frag: &mut Frag) {
    let c = case();
    let o = ops_of(t);
    let mut ord: u64 = 0;
    let via = if sem::reaches_list_of_heap(&c.schema, &c.targets[t].shape, c.keep) { "type-with-list-of-heap-owning-elements" } else { "type-without-such-list" };
    for wp in [WP::Binary, WP::Compact] {
        let (x, base, faults) = fault_inputs(ctx, t, k, wp);
        let base_hex = hex(&base);
        // inputs whose sync decode failed without a live-byte change in its own three runs: soaked below
        let mut soak: Vec<usize> = vec![];
        for (fi, f) in faults.iter().enumerate() {
            for is_async in [false, true] {
                if is_async && fi % 4 != 0 {
                    continue;
                }
                let who = format!("{}{}", if is_async { "async_" } else { "" }, wp.name());
                ord += 1;
                monitors::driver::checkpoint_violations(frag);
                if !monitors::driver::sub_mark_n(ord, &format!("c19 {} {} {} {}", who, tname(t), f.desc, hex(&f.bytes[..f.bytes.len().min(80)]))) {
                    continue;
                }
                if !is_async && soak.len() < 6 && fi % 7 == 3 {
                    soak.push(fi);
                }
                let run = || -> Result<bool, ()> {
                    // returns Ok(decode_failed)
                    if is_async {
                        let a = (o.decode_async)(wp, &f.bytes, &Schedule::all_at_once());
                        match a.out {
                            Ok(r) => Ok(r.is_err()),
                            Err(_) => Err(()),
                        }
                    } else {
                        Ok((o.decode)(wp, &f.bytes).0.is_err())
                    }
                };
                // warm-up + three measured repetitions
                let first = guarded(&run);
                let failed = match first {
                    Ok(Ok(failed)) => failed,
                    _ => {
                        frag.masked("decode-panicked-or-hung(C09)");
                        continue;
                    }
                };
                if !failed {
                    continue; // the statement is about failed decodes
                }
                let l1 = alloc::snap().live;
                let _ = guarded(&run);
                let _ = guarded(&run);
                let l3 = alloc::snap().live;
                frag.eval();
                frag.count(&format!("{}.failed_decodes", who));
                frag.count(&format!("at.{}", f.at));
                frag.distinct(fnv1a(format!("{}|{}|{}|{}", who, f.kind, f.at, tname(t)).as_bytes()));
                if l3 != l1 {
                    let per = (l3 - l1) / 2;
                    // the recorded list defect needs a failing element k >= 1: a strict prefix of the
                    // encoding of a value in which no list of heap-owning elements has two elements
                    // cannot show it, so a leak there is something else and keeps its own key
                    let via = if via == "type-with-list-of-heap-owning-elements" && f.strict_prefix && !sem::value_has_heap_list_ge2(&c.schema, &c.targets[t].shape, &x, c.keep) {
                        "prefix-of-a-value-without-two-elements-in-a-list-of-heap-owning-elements"
                    } else {
                        via
                    };
                    viol(
                        frag,
                        "c19",
                        &format!("leak|{}", via),
                        format!("[{}] {}: {} bytes stay live per failed decode (input {} bytes, fault {})", who, tname(t), per, f.bytes.len(), f.desc),
                        json!({"corpus": c.corpus, "config": c.config, "target": c.targets[t].name, "target_idx": t, "wp": wp.name(), "async": is_async, "fault": f.desc, "input_hex": hex(&f.bytes), "base_hex": base_hex, "value": x.render(160), "live_growth_per_decode": per}),
                    );
                    soak.retain(|i| *i != fi);
                }
            }
        }
        // soak: growth that is amortised (a pooled or cached buffer that grows by a few bytes per
        // failed decode and doubles now and then) does not show in three runs of one input.
        // A few failing inputs are decoded round-robin many times on this thread; the live-byte
        // count after the first third is compared with the count at the end.
        if !soak.is_empty() {
            ord += 1;
            monitors::driver::checkpoint_violations(frag);
            if monitors::driver::sub_mark_n(ord, &format!("c19 soak {} {}", wp.name(), tname(t))) {
                let rounds = 450usize;
                let mut mid = 0isize;
                let mut ok = true;
                for r in 0..rounds {
                    for fi in &soak {
                        let bytes = &faults[*fi].bytes;
                        if guarded(|| (o.decode)(wp, bytes).0.is_err()).is_err() {
                            ok = false;
                        }
                    }
                    if r == rounds / 3 {
                        mid = alloc::snap().live;
                    }
                }
                let end = alloc::snap().live;
                frag.count(&format!("{}.soak_runs", wp.name()));
                frag.add(&format!("{}.soak_decodes", wp.name()), (rounds * soak.len()) as u64);
                if ok && end - mid > 256 {
                    viol(
                        frag,
                        "c19",
                        &format!("soak-growth|{}", via),
                        format!("[{}] {}: live bytes grew by {} over {} failed decodes of {} inputs (amortised growth)", wp.name(), tname(t), end - mid, (rounds - rounds / 3) * soak.len(), soak.len()),
                        json!({"corpus": c.corpus, "config": c.config, "target": c.targets[t].name, "target_idx": t, "wp": wp.name(), "base_hex": base_hex, "value": x.render(160), "growth": end - mid}),
                    );
                }
            }
        }
    }
}

const FAULT_BASES_QUICK: u64 = 5;
const FAULT_BASES_THOROUGH: u64 = 24;

macro_rules! fault_cases {
    () => {
        fn ncases(&self, ctx: &Ctx) -> u64 {
            case().targets.len() as u64 * ctx.scale(FAULT_BASES_QUICK, FAULT_BASES_THOROUGH)
        }
        fn label(&self, ctx: &Ctx, idx: u64) -> String {
            let n = ctx.scale(FAULT_BASES_QUICK, FAULT_BASES_THOROUGH);
            format!("{}#{}", tname((idx / n) as usize), idx % n)
        }
    };
}

impl Check for C09 {
    fn id(&self) -> &'static str {
        "c09"
    }
    fn risky(&self, _ctx: &Ctx, _idx: u64) -> bool {
        true
    }
    fn level(&self) -> &'static str {
        "fault_enumeration"
    }
    fn rule(&self) -> String {
        "generated half: for every declared/synthesised type and base values encoded by the reference codec (binary, binary_le, compact): every truncation, bit flips, every length/count boundary overwrite, every type-code replacement fed to T::decode and T::decode_async on a 2 MiB stack; oracle: Ok or Err, no panic/abort/stack overflow, allocation <= 64 KiB + max(256, 4 x size_of::<T>) x len, poll budget; strict prefixes of struct encodings must be Err".into()
    }
    fault_cases!();
    fn run_case(&self, ctx: &Ctx, idx: u64, frag: &mut Frag) {
        let n = ctx.scale(FAULT_BASES_QUICK, FAULT_BASES_THOROUGH);
        let ctx2 = ctx.clone();
        let local = on_stack(STACK_2MIB, move || {
            let mut f = Frag::new();
            c09_one(&ctx2, (idx / n) as usize, idx % n + 1, &mut f);
            f
        });
        frag.merge(local);
    }
    fn replay(&self, ctx: &Ctx, cj: &Value, frag: &mut Frag) -> bool {
        if cj["corpus"].as_str() != Some(&case().corpus) || cj["config"].as_str() != Some(&case().config) {
            return false;
        }
        let n = ctx.scale(FAULT_BASES_QUICK, FAULT_BASES_THOROUGH);
        match case().targets.iter().position(|t| Some(t.name.as_str()) == cj["target"].as_str()) {
            Some(t) => {
                let _ = unhex("");
                for k in 0..n {
                    c09_one(ctx, t, k + 1, frag);
                }
                true
            }
            None => false,
        }
    }
    fn finish(&self, _ctx: &Ctx, r: &mut Report, deaths: &[Death]) {
        let deaths = &split_fastpath_deaths("c09", r, deaths)[..];
        for d in deaths {
            let sub = d.label.split("::").nth(1).unwrap_or("").trim().to_string();
            let who = sub.split_whitespace().nth(1).unwrap_or("?");
            let kind = sub.split_whitespace().find(|w| w.starts_with("kind=")).unwrap_or("kind=?").trim_start_matches("kind=");
            let panicked = d.last_panic();
            if let Some((loc, msg)) = panicked.as_ref().filter(|(_, m)| m.contains("capacity overflow") || m.contains("Hash table capacity")) {
                // the process died while the known pre-allocation panic was unwinding
                r.frag.violation(&alloc_key(who), &format!("[{} {} death:{}] worker died while unwinding `{}` ({}): {}", who, kind, d.class(), msg, loc, d.label), death_json(d));
            } else if d.class() == "alloc-failure" {
                r.frag.violation(&alloc_key(who), &format!("[{} {} death] allocation failure (request >= 1 GiB) while decoding: {}", who, kind, d.label), death_json(d));
            } else {
                r.frag.violation(&format!("c09|{}|death:{}|{}", who, d.class(), kind), &format!("worker died ({}) while decoding: {}", d.class(), d.label), death_json(d));
            }
        }
        for wp in SAFE_WP {
            r.floor(&format!("gen.{}.trunc", wp.name()), 100);
            r.floor(&format!("gen.async_{}.trunc", wp.name()), 30);
        }
    }
}

impl Check for C19 {
    fn id(&self) -> &'static str {
        "c19"
    }
    fn risky(&self, _ctx: &Ctx, _idx: u64) -> bool {
        true
    }
    fn level(&self) -> &'static str {
        "fault_enumeration"
    }
    fn rule(&self) -> String {
        "for every declared/synthesised type and base values encoded by the reference codec (binary, compact): every truncation point and every corruption (bit flips, length/count boundaries, type codes) that makes T::decode / T::decode_async FAIL; oracle (counting allocator, worker thread's own counter): after a warm-up run the sequence {decode(input copy); drop result and input} is repeated twice more and the live-byte count must not grow (a leaked element that holds a slice of the input keeps the whole input alive, which shows as len(input) extra bytes per repetition). distinct = (protocol, fault kind, position class, type)".into()
    }
    fault_cases!();
    fn run_case(&self, ctx: &Ctx, idx: u64, frag: &mut Frag) {
        let n = ctx.scale(FAULT_BASES_QUICK, FAULT_BASES_THOROUGH);
        let ctx2 = ctx.clone();
        let local = on_stack(STACK_2MIB, move || {
            let mut f = Frag::new();
            c19_one(&ctx2, (idx / n) as usize, idx % n + 1, &mut f);
            f
        });
        frag.merge(local);
    }
    fn replay(&self, ctx: &Ctx, cj: &Value, frag: &mut Frag) -> bool {
        if cj["corpus"].as_str() != Some(&case().corpus) || cj["config"].as_str() != Some(&case().config) {
            return false;
        }
        let n = ctx.scale(FAULT_BASES_QUICK, FAULT_BASES_THOROUGH);
        match case().targets.iter().position(|t| Some(t.name.as_str()) == cj["target"].as_str()) {
            Some(t) => {
                for k in 0..n {
                    c19_one(ctx, t, k + 1, frag);
                }
                true
            }
            None => false,
        }
    }
    fn finish(&self, _ctx: &Ctx, r: &mut Report, deaths: &[Death]) {
        for d in deaths {
            let _ = d;
            r.frag.masked("worker-died-during-decode(C09)");
        }
        r.assume("live bytes are counted per thread by the counting allocator; growth between repetitions (not before/after one call) removes lazy one-time initialisation from the measurement");
        r.floor("binary.failed_decodes", 500);
        r.floor("compact.failed_decodes", 500);
        r.floor("async_binary.failed_decodes", 100);
    }
}

// ===========================================================================
// C11 / C12 (generated halves)
// ===========================================================================

pub struct C11;
pub struct C12;

fn c11_one(ctx: &Ctx, t: usize, k: u64, frag: &mut Frag) {
    let c = case();
    let sh = &c.targets[t].shape;
    let x0 = gen_value(ctx, t, k, 0xC11);
    let mut rng = Rng::new(ctx.seed ^ 0x1111 ^ k);
    // reader schemas that skip (and with keep: retain) arbitrary unknown fields
    let x = if x0.tt() == TT::Struct && k % 2 == 1 { sem::add_unknown_fields(&c.schema, sh, &x0, &mut rng) } else { x0 };
    frag.eval();
    if x.nontrivial() {
        frag.distinct(fnv1a(format!("{}{}", tname(t), x.hash64()).as_bytes()));
    }
    let b = encode(Proto::Binary, &x);
    let o = ops_of(t);
    let cj = || case_json(t, WP::Unchecked, &x, json!({"input_hex": hex(&b)}));
    sub_mark(&format!("c11 {} decode {}", tname(t), hex(&b[..b.len().min(80)])));
    let ck = guarded(|| (o.decode)(WP::Binary, &b));
    let un = guarded(|| (o.decode)(WP::Unchecked, &b));
    frag.count("gen.decode_pairs");
    let (vc, vu) = match (ck, un) {
        (Ok((Ok(vc), cc)), Ok((Ok(vu), cu))) => {
            if !vc.eq_dyn(&*vu) {
                viol(frag, "c11", &format!("gen|decode|value-differs|{}", shape_kind(sh)), format!("{}: checked {} vs unchecked {}", tname(t), trunc(&vc.debug()), trunc(&vu.debug())), cj());
            } else if cc != cu {
                viol(frag, "c11", "gen|decode|consumed-differs", format!("{}: checked consumed {}, unchecked accounts for {} of {}", tname(t), cc, cu, b.len()), cj());
            }
            (vc, vu)
        }
        (Ok((Err(_), _)), _) | (Err(_), _) => {
            frag.masked("checked-decoder-failed(C02/C13)");
            return;
        }
        (_, Ok((Err(e), _))) => {
            viol(frag, "c11", &format!("gen|decode|unchecked-rejected|{}", shape_kind(sh)), format!("{}: {}", tname(t), e), cj());
            return;
        }
        (_, Err(p)) => {
            viol(frag, "c11", &format!("gen|decode|panic|{}|{}", p.site(), p.class()), format!("{}: {} {}", tname(t), p.location, p.message), cj());
            return;
        }
    };
    let _ = vu;
    // writer: exact-size window from the size the unchecked writer itself reports
    // (its own TLengthProtocol), which must agree with the checked codec's
    let size = vc.size(WP::Binary);
    match guarded(|| vc.size(WP::Unchecked)) {
        Ok(us) if us != size => {
            frag.count("gen.encode.own-size");
            viol(frag, "c11", "gen|encode|unchecked-size-differs", format!("{}: the unchecked writer reports {} bytes, the checked codec {} (a buffer of the reported size is overrun / left partly unwritten)", tname(t), us, size), cj());
        }
        Ok(_) => frag.count("gen.encode.own-size"),
        Err(p) => viol(frag, "c11", &format!("gen|size|panic|{}|{}", p.site(), p.class()), format!("{} {}", p.location, p.message), cj()),
    }
    for bk in ALL_BK {
        sub_mark(&format!("c11 {} encode {} window={}", tname(t), bk.name(), size));
        frag.count(&format!("gen.encode.{}", bk.name()));
        let ck = match guarded(|| vc.encode(WP::Binary, bk)) {
            Ok(Ok(b)) => b,
            _ => {
                frag.masked("checked-encoder-failed(C02)");
                continue;
            }
        };
        if ck.len() != size {
            frag.masked("size-mismatch(C04)");
            continue;
        }
        match guarded(|| vc.encode_unchecked_guarded(bk, size)) {
            Ok(Ok((out, intact))) => {
                if !intact {
                    viol(frag, "c11", &format!("gen|encode|{}|wrote-outside-window", bk.name()), format!("{}: guard bytes behind the exact-size window ({} bytes) modified", tname(t), size), cj());
                }
                if out != ck {
                    viol(frag, "c11", &format!("gen|encode|{}|bytes-differ", bk.name()), format!("{}: unchecked writer {} bytes vs checked {}", tname(t), out.len(), ck.len()), cj());
                }
            }
            Ok(Err(e)) => viol(frag, "c11", &format!("gen|encode|{}|error", bk.name()), e, cj()),
            Err(p) => viol(frag, "c11", &format!("gen|encode|{}|panic|{}|{}", bk.name(), p.site(), p.class()), format!("{} {}", p.location, p.message), cj()),
        }
    }
}

impl Check for C11 {
    fn id(&self) -> &'static str {
        "c11"
    }
    fn risky(&self, _ctx: &Ctx, _idx: u64) -> bool {
        true
    }
    fn rule(&self) -> String {
        "generated half: for every declared/synthesised type and N values (half of them carrying unknown fields that the reader skips or, with keep_unknown_fields, retains): T::decode with the unchecked reader == with the checked reader (typed equality, consumed bytes); T::encode with the unchecked writer into a guarded exact-size window == checked bytes, guards intact, on BytesMut / LinkedBytes zc off / on".into()
    }
    target_value_cases!();
    fn run_case(&self, ctx: &Ctx, idx: u64, frag: &mut Frag) {
        let t = (idx / per_target(ctx)) as usize;
        c11_one(ctx, t, idx % per_target(ctx), frag);
    }
    fn replay(&self, ctx: &Ctx, cj: &Value, frag: &mut Frag) -> bool {
        replay_common(ctx, cj, frag, |ctx, t, k, frag| c11_one(ctx, t, k, frag))
    }
    fn finish(&self, _ctx: &Ctx, r: &mut Report, deaths: &[Death]) {
        let deaths = &split_fastpath_deaths("c11", r, deaths)[..];
        for d in deaths {
            r.frag.violation(&format!("c11|gen|death|{}", d.class()), &format!("worker died ({}) in {}", d.class(), d.label), death_json(d));
        }
        r.floor("gen.decode_pairs", 100);
    }
}

fn c12_one(ctx: &Ctx, t: usize, k: u64, frag: &mut Frag) {
    let c = case();
    let sh = &c.targets[t].shape;
    let x0 = gen_value(ctx, t, k, 0xC12);
    let mut rng = Rng::new(ctx.seed ^ 0x1212 ^ k);
    let xu = if x0.tt() == TT::Struct && k % 2 == 1 { sem::add_unknown_fields(&c.schema, sh, &x0, &mut rng) } else { x0.clone() };
    let o = ops_of(t);
    for wp in SAFE_WP {
        // keep_unknown_fields retains raw bytes by offset arithmetic that is only
        // defined for the binary family; on compact no unknown fields are fed
        let x = if c.keep && wp == WP::Compact { x0.clone() } else { xu.clone() };
        let b = encode(wp.wire(), &x);
        let mut data = b.clone();
        data.extend_from_slice(&[0xEE; 8]);
        let s = match guarded(|| (o.decode)(wp, &data)) {
            Ok(s) => s,
            Err(_) => {
                frag.masked("sync-decoder-panicked(C09)");
                continue;
            }
        };
        let mut scheds = vec![Schedule::all_at_once(), Schedule::byte_at_a_time(), Schedule { pending_always: true, ..Default::default() }];
        if b.len() <= 40 {
            for i in 1..b.len() {
                scheds.push(Schedule::splits(&[i]));
                for j in (i + 1..b.len()).step_by(3) {
                    scheds.push(Schedule::splits(&[i, j]));
                }
            }
        } else {
            for _ in 0..6 {
                let mut pts: Vec<usize> = (0..1 + rng.usize_below(4)).map(|_| 1 + rng.usize_below(b.len() - 1)).collect();
                pts.sort();
                pts.dedup();
                let mut sc = Schedule::splits(&pts);
                sc.pending_at = (0..rng.usize_below(4)).map(|_| rng.usize_below(b.len())).collect();
                scheds.push(sc);
            }
        }
        for sched in &scheds {
            sub_mark(&format!("c12 {} {} {}", tname(t), wp.name(), sched.render()));
            frag.eval();
            frag.count(&format!("gen.async_{}.schedules", wp.name()));
            let cj = || case_json(t, wp, &x, json!({"input_hex": hex(&b), "schedule": sched.render()}));
            match guarded(|| (o.decode_async)(wp, &data, sched)) {
                Err(p) => viol(frag, "c12", &format!("gen.async_{}|panic|{}|{}", wp.name(), p.site(), p.class()), format!("{} {}", p.location, p.message), cj()),
                Ok(a) => match (&s.0, a.out) {
                    (_, Err(h)) => viol(frag, "c12", &format!("gen.async_{}|hang", wp.name()), h, cj()),
                    (Ok(vs), Ok(Ok(va))) => {
                        // with keep_unknown_fields the async decoder does not retain unknown fields (the
                        // generated decode_async sets an empty list): compare through the re-encoding of known fields
                        let same = if c.keep { va.encode(wp, BK::BytesMut).ok().map(|e| strip_all_unknown(t, wp, &e)) == vs.encode(wp, BK::BytesMut).ok().map(|e| strip_all_unknown(t, wp, &e)) } else { va.eq_dyn(&**vs) };
                        if !same {
                            viol(frag, "c12", &format!("gen.async_{}|value-differs|{}", wp.name(), shape_kind(sh)), format!("{}: async {} vs sync {}", tname(t), trunc(&va.debug()), trunc(&vs.debug())), cj());
                        } else if a.handed != s.1 {
                            viol(frag, "c12", &format!("gen.async_{}|bytes-consumed", wp.name()), format!("{}: in-memory consumed {}, stream handed out {} (message {})", tname(t), s.1, a.handed, b.len()), cj());
                        }
                    }
                    (Ok(_), Ok(Err(e))) => viol(frag, "c12", &format!("gen.async_{}|async-error-sync-ok|{}", wp.name(), shape_kind(sh)), format!("{}: {}", tname(t), e), cj()),
                    (Err(e), Ok(Ok(_))) => viol(frag, "c12", &format!("gen.async_{}|sync-error-async-ok|{}", wp.name(), shape_kind(sh)), format!("{}: in-memory decoder reports {}", tname(t), e), cj()),
                    (Err(_), Ok(Err(_))) => frag.count("agree.err"),
                },
            }
        }
    }
    if xu.nontrivial() {
        frag.distinct(fnv1a(format!("{}{}", tname(t), xu.hash64()).as_bytes()));
    }
}

fn strip_all_unknown(t: usize, wp: WP, enc: &[u8]) -> Option<TVal> {
    let c = case();
    decode_exact(wp.wire(), c.schema.target_tt(&c.targets[t].shape), enc).ok().map(|v| canon(&sem::strip_unknown(&c.schema, &c.targets[t].shape, &v)).norm_empty_maps())
}

impl Check for C12 {
    fn id(&self) -> &'static str {
        "c12"
    }
    fn rule(&self) -> String {
        "generated half: for every declared/synthesised type and N values (half carrying unknown fields of random wire types so the async skipper runs): T::decode_async under all-at-once, byte-at-a-time, Pending-before-every-read and, for messages <= 40 bytes, every 1-split and every third 2-split schedule (longer: random splits + Pending injections) must equal T::decode on the same bytes (value / error), hand out exactly the bytes the in-memory decoder consumed (8-byte sentinel stays unread)".into()
    }
    target_value_cases!();
    fn run_case(&self, ctx: &Ctx, idx: u64, frag: &mut Frag) {
        let t = (idx / per_target(ctx)) as usize;
        if idx % per_target(ctx) >= per_target(ctx) / 3 + 1 {
            return;
        }
        c12_one(ctx, t, idx % per_target(ctx), frag);
    }
    fn replay(&self, ctx: &Ctx, cj: &Value, frag: &mut Frag) -> bool {
        replay_common(ctx, cj, frag, |ctx, t, k, frag| c12_one(ctx, t, k, frag))
    }
    fn finish(&self, _ctx: &Ctx, r: &mut Report, deaths: &[Death]) {
        let deaths = &split_fastpath_deaths("c12", r, deaths)[..];
        deaths_as_violations(r, deaths);
        for wp in SAFE_WP {
            r.floor(&format!("gen.async_{}.schedules", wp.name()), 200);
        }
    }
}

// ===========================================================================

pub fn main(registry: Vec<TypeOps>, seed: u64, profile: &str, config: &str, corpus: &str) {
    let schema = generate(seed, &GenProfile::named(profile));
    let targets = schema.targets("pgen");
    assert_eq!(targets.len(), registry.len(), "registry and schema disagree");
    let _ = CASE.set(Case { schema, targets, ops: registry, config: config.to_string(), corpus: corpus.to_string(), keep: config == "keep" });
    let checks: Vec<&dyn Check> = vec![&C02, &C04, &C08, &C09, &C11, &C12, &C13, &C19, &C20];
    std::process::exit(monitors::driver::main_with(&checks));
}
