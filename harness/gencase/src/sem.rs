//! Schema-directed semantic functions used by the generated-code oracles:
//! writer-schema evolution applied to value trees, the projection onto the
//! reader schema (the executable form of the tolerant-reader statement),
//! unknown-field insertion/stripping and the retention expectation.

use monitors::evidence::Frag;
use refmodel::rng::Rng;
use refmodel::schema::{Field, Kind, Req, Schema, Shape, Ty};
use refmodel::tval::{ALL_TT, Gen, GenCfg, TT, TVal};

#[derive(Copy, Clone, Debug, PartialEq)]
pub enum Pos {
    Top,
    NestedStruct,
    ListElement,
    MapValue,
    MapKey,
}

impl Pos {
    fn name(self) -> &'static str {
        match self {
            Pos::Top => "top",
            Pos::NestedStruct => "nested_struct",
            Pos::ListElement => "list_element",
            Pos::MapValue => "map_value",
            Pos::MapKey => "map_key",
        }
    }
}

type StructFn<'a> = dyn FnMut(&[Field], bool, bool, Vec<(i16, TVal)>, Pos) -> Vec<(i16, TVal)> + 'a;

/// Rebuild `v` (declared type `ty`) bottom-up, giving `f` every struct/union
/// value together with the reader's field list for it.
fn map_ty(s: &Schema, ty: &Ty, v: &TVal, pos: Pos, f: &mut StructFn) -> TVal {
    match (s.resolve(ty), v) {
        (Ty::List(t), TVal::List(tt, xs)) => TVal::List(*tt, xs.iter().map(|x| map_ty(s, t, x, Pos::ListElement, f)).collect()),
        (Ty::Set(t), TVal::Set(tt, xs)) => TVal::Set(*tt, xs.iter().map(|x| map_ty(s, t, x, Pos::MapKey, f)).collect()),
        (Ty::Map(k, vt), TVal::Map(kt, vtt, es)) => TVal::Map(*kt, *vtt, es.iter().map(|(a, b)| (map_ty(s, k, a, Pos::MapKey, f), map_ty(s, vt, b, Pos::MapValue, f))).collect()),
        (Ty::Ref(d), TVal::Struct(fs)) => {
            let def = &s.defs[*d];
            match def.kind {
                Kind::Struct | Kind::Exception | Kind::Union => map_fields(s, &def.fields, def.kind == Kind::Union, false, fs, pos, f),
                _ => v.clone(),
            }
        }
        _ => v.clone(),
    }
}

fn map_fields(s: &Schema, fields: &[Field], is_union: bool, ok_empty: bool, fs: &[(i16, TVal)], pos: Pos, f: &mut StructFn) -> TVal {
    let mut out = vec![];
    for (id, v) in fs {
        match fields.iter().find(|fd| fd.id == *id) {
            Some(fd) if s.tt(&fd.ty) == v.tt() => {
                let p = if pos == Pos::MapKey { Pos::MapKey } else { Pos::NestedStruct };
                out.push((*id, map_ty(s, &fd.ty, v, p, f)))
            }
            _ => out.push((*id, v.clone())),
        }
    }
    TVal::Struct(f(fields, is_union, ok_empty, out, pos))
}

pub fn map_target(s: &Schema, sh: &Shape, v: &TVal, f: &mut StructFn) -> TVal {
    match sh {
        Shape::Def(i) => map_ty(s, &Ty::Ref(*i), v, Pos::Top, f),
        _ => {
            let (fields, is_union, ok_empty) = s.target_fields(sh);
            match v {
                TVal::Struct(fs) => map_fields(s, &fields, is_union, ok_empty, fs, Pos::Top, f),
                _ => v.clone(),
            }
        }
    }
}

fn unknown_id(fields: &[Field], present: &[(i16, TVal)], rng: &mut Rng) -> i16 {
    loop {
        let id = match rng.below(4) {
            0 => 100 + rng.below(30) as i16,
            1 => 1 + rng.below(40) as i16,
            2 => 1000 + rng.below(20000) as i16,
            _ => 50 + rng.below(10) as i16,
        };
        if !fields.iter().any(|f| f.id == id) && !present.iter().any(|p| p.0 == id) {
            return id;
        }
    }
}

fn random_value(rng: &mut Rng, tt: TT) -> TVal {
    let mut g = Gen::new(rng, GenCfg { max_depth: 3, leaf_budget: 10, big_strings: false, utf8_only: false, max_container: 4 });
    g.gen_val(tt, 1)
}

/// Insert fields the reader does not know (every wire type) at random
/// positions of the top-level struct and of nested structs (struct-typed
/// fields, list elements, map values). Map keys and set elements are left
/// alone (they must stay hash-equal to themselves).
pub fn add_unknown_fields(s: &Schema, sh: &Shape, x: &TVal, rng: &mut Rng) -> TVal {
    let mut force_top = true;
    map_target(s, sh, x, &mut |fields, is_union, _ok, mut fs, pos| {
        if pos == Pos::MapKey {
            return fs;
        }
        if is_union {
            // a union value keeps exactly one variant; unknown extras next to
            // it are not part of any schema evolution
            return fs;
        }
        let n = if force_top && pos == Pos::Top { 1 + rng.usize_below(3) } else if rng.chance(1, 2) { rng.usize_below(3) } else { 0 };
        if pos == Pos::Top {
            force_top = false;
        }
        for i in 0..n {
            let id = unknown_id(fields, &fs, rng);
            let tt = *rng.pick(&ALL_TT);
            // now and then a top-level unknown field is a payload on either side of the
            // zero-copy threshold of the LinkedBytes writers (4096 bytes): retained chunks of
            // that size are linked in instead of copied
            let v = if pos == Pos::Top && i == 0 && rng.chance(1, 6) {
                let len = *rng.pick(&[4092usize, 4096, 5000]);
                TVal::Binary(rng.bytes(len))
            } else {
                random_value(rng, tt)
            };
            let at = rng.usize_below(fs.len() + 1);
            fs.insert(at, (id, v));
        }
        fs
    })
}

pub fn count_unknown(s: &Schema, sh: &Shape, x: &TVal, frag: &mut Frag) {
    let _ = map_target(s, sh, x, &mut |fields, _u, _o, fs, pos| {
        for (id, v) in &fs {
            if !fields.iter().any(|f| f.id == *id) {
                frag.count(&format!("unknown.{}", v.tt().name()));
                frag.count(&format!("position.{}", pos.name()));
            }
        }
        fs
    });
}

pub fn strip_unknown(s: &Schema, sh: &Shape, x: &TVal) -> TVal {
    map_target(s, sh, x, &mut |fields, _u, _o, fs, _pos| fs.into_iter().filter(|(id, _)| fields.iter().any(|f| f.id == *id)).collect())
}

/// expected re-encoding of a retaining reader: known fields as in a plain
/// round trip (defaults filled), unknown fields verbatim
pub fn expected_keep(s: &Schema, fields: &[Field], is_union: bool, x: &TVal) -> TVal {
    fn go_ty(s: &Schema, ty: &Ty, v: &TVal) -> TVal {
        match (s.resolve(ty), v) {
            (Ty::List(t), TVal::List(tt, xs)) => TVal::List(*tt, xs.iter().map(|x| go_ty(s, t, x)).collect()),
            (Ty::Set(t), TVal::Set(tt, xs)) => TVal::Set(*tt, xs.iter().map(|x| go_ty(s, t, x)).collect()),
            (Ty::Map(k, vt), TVal::Map(kt, vtt, es)) => TVal::Map(*kt, *vtt, es.iter().map(|(a, b)| (go_ty(s, k, a), go_ty(s, vt, b))).collect()),
            (Ty::Ref(d), TVal::Struct(_)) => {
                let def = &s.defs[*d];
                match def.kind {
                    Kind::Struct | Kind::Exception | Kind::Union => expected_keep(s, &def.fields, def.kind == Kind::Union, v),
                    _ => v.clone(),
                }
            }
            _ => v.clone(),
        }
    }
    let fs = match x {
        TVal::Struct(fs) => fs,
        _ => return x.clone(),
    };
    let mut out: Vec<(i16, TVal)> = vec![];
    for f in fields {
        if let Some((_, v)) = fs.iter().rev().find(|(id, v)| *id == f.id && v.tt() == s.tt(&f.ty)) {
            out.push((f.id, go_ty(s, &f.ty, v)));
        } else if !is_union {
            if let Some(v) = s.field_default_present(f) {
                out.push((f.id, v));
            }
        }
    }
    for (id, v) in fs {
        if !fields.iter().any(|f| f.id == *id) {
            out.push((*id, v.clone()));
        }
    }
    TVal::Struct(out)
}

// ---------------------------------------------------------------------------
// evolution + projection (C08)

/// Apply a random composition of writer-schema evolution operators to `x`.
/// Returns the evolved value and the names of the operators applied.
pub fn evolve(s: &Schema, sh: &Shape, x: &TVal, rng: &mut Rng) -> (TVal, Vec<String>) {
    let mut used: Vec<String> = vec![];
    let nops = 1 + rng.usize_below(3);
    let mut cur = x.clone();
    for _ in 0..nops {
        let op = rng.below(9);
        let mut applied: Option<&'static str> = None;
        let mut budget = 1 + rng.usize_below(2);
        cur = map_target(s, sh, &cur, &mut |fields, is_union, _ok, mut fs, pos| {
            if pos == Pos::MapKey || budget == 0 {
                return fs;
            }
            // apply at this struct with some probability (so that nested levels are reached too)
            if pos != Pos::Top && !rng.chance(1, 3) {
                return fs;
            }
            match (op, is_union) {
                (0 | 1, false) => {
                    let id = unknown_id(fields, &fs, rng);
                    let tt = *rng.pick(&ALL_TT);
                    let at = rng.usize_below(fs.len() + 1);
                    fs.insert(at, (id, random_value(rng, tt)));
                    applied = Some("add_field");
                    budget -= 1;
                }
                (2, false) => {
                    if !fs.is_empty() {
                        let at = rng.usize_below(fs.len());
                        fs.remove(at);
                        applied = Some("remove_field");
                        budget -= 1;
                    }
                }
                (3, false) => {
                    if !fs.is_empty() {
                        let at = rng.usize_below(fs.len());
                        let old = fs[at].1.tt();
                        // the new wire type differs from the one the reader declares for this id
                        // (a second retype of the same field must not come back to a container of
                        // the declared kind with other element types: that is not a wire-type
                        // difference at field level and outside what the property promises)
                        let declared = fields.iter().find(|f| f.id == fs[at].0).map(|f| s.tt(&f.ty));
                        let tt = loop {
                            let t = *rng.pick(&ALL_TT);
                            if t != old && Some(t) != declared {
                                break t;
                            }
                        };
                        fs[at].1 = random_value(rng, tt);
                        applied = Some("retype_field");
                        budget -= 1;
                    }
                }
                (4, false) => {
                    if fs.len() > 1 {
                        rng.shuffle(&mut fs);
                        applied = Some("reorder");
                        budget -= 1;
                    }
                }
                (8, true) => {
                    // fields with ids the reader does not know next to the one known variant
                    // (before and/or after it): the statement lets a union fail only when it
                    // carries no known variant or more than one
                    let n = 1 + rng.usize_below(2);
                    for _ in 0..n {
                        let id = unknown_id(fields, &fs, rng);
                        let tt = *rng.pick(&ALL_TT);
                        let at = rng.usize_below(fs.len() + 1);
                        fs.insert(at, (id, random_value(rng, tt)));
                    }
                    applied = Some("unknown_fields_around_union_variant");
                    budget -= 1;
                }
                (5, true) => {
                    let id = unknown_id(fields, &fs, rng);
                    let tt = *rng.pick(&ALL_TT);
                    fs = vec![(id, random_value(rng, tt))];
                    applied = Some("unknown_union_variant");
                    budget -= 1;
                }
                (6, true) => {
                    if let Some(other) = fields.iter().find(|f| !fs.iter().any(|p| p.0 == f.id)) {
                        let v = {
                            let mut g = refmodel::schema::VGen { s, rng: &mut *rng, max_depth: 2, fill: 1, undeclared_enums: false };
                            g.gen_ty(&other.ty, 1)
                        };
                        fs.push((other.id, v));
                        applied = Some("second_union_variant");
                        budget -= 1;
                    }
                }
                (7, true) => {
                    if let Some(first) = fs.first_mut() {
                        let old = first.1.tt();
                        let declared = fields.iter().find(|f| f.id == first.0).map(|f| s.tt(&f.ty));
                        let tt = loop {
                            let t = *rng.pick(&ALL_TT);
                            if t != old && Some(t) != declared {
                                break t;
                            }
                        };
                        first.1 = random_value(rng, tt);
                        applied = Some("retype_union_variant");
                        budget -= 1;
                    }
                }
                _ => {}
            }
            fs
        });
        if let Some(a) = applied {
            used.push(a.to_string());
        }
    }
    (cur, used)
}

/// The tolerant-reader statement, executed: what a reader with schema R must
/// make of the (well-formed) value `x` written under some other schema.
pub fn project(s: &Schema, sh: &Shape, x: &TVal) -> Result<TVal, String> {
    project2(s, sh, x).0
}

thread_local! {
    static ERR_ALSO_OK: std::cell::Cell<bool> = const { std::cell::Cell::new(false) };
    static MISTYPED_UNION: std::cell::Cell<bool> = const { std::cell::Cell::new(false) };
    static UNION_EXTRA_UNKNOWN: std::cell::Cell<bool> = const { std::cell::Cell::new(false) };
}

/// did the last `project2` meet a union value with known variant(s) AND fields of unknown
/// id? (a reader that retains unknown fields keeps such a field as the union's value, so it
/// sees "several fields"; no writer schema produces such a value)
pub fn last_union_had_extra_unknown_fields() -> bool {
    UNION_EXTRA_UNKNOWN.with(|c| c.get())
}

/// (expected outcome, an error is ALSO acceptable, the value contains a union
/// variant whose id is known to the reader but whose wire type differs).
/// "error also acceptable": a required field that has an IDL default is absent
/// - the statement permits failing (required field absent) and does not forbid
/// falling back to the declared default.
pub fn project2(s: &Schema, sh: &Shape, x: &TVal) -> (Result<TVal, String>, bool, bool) {
    ERR_ALSO_OK.with(|c| c.set(false));
    MISTYPED_UNION.with(|c| c.set(false));
    UNION_EXTRA_UNKNOWN.with(|c| c.set(false));
    let r = match sh {
        Shape::Def(i) => project_ty(s, &Ty::Ref(*i), x),
        _ => {
            let (fields, is_union, ok_empty) = s.target_fields(sh);
            match x {
                TVal::Struct(fs) => project_fields(s, &fields, is_union, ok_empty, fs),
                _ => Ok(x.clone()),
            }
        }
    };
    // the projection stops at the first reason to fail; whether a mistyped union variant
    // occurs ANYWHERE in the value (the decoder meets it before or after that reason,
    // depending on field order) is established by a walk of its own
    let mistyped = MISTYPED_UNION.with(|c| c.get())
        || match sh {
            Shape::Def(i) => mistyped_union_in(s, &Ty::Ref(*i), x),
            _ => {
                let (fields, is_union, _) = s.target_fields(sh);
                match x {
                    TVal::Struct(fs) => mistyped_union_in_fields(s, &fields, is_union, fs),
                    _ => false,
                }
            }
        };
    (r, ERR_ALSO_OK.with(|c| c.get()), mistyped)
}

fn mistyped_union_in(s: &Schema, ty: &Ty, v: &TVal) -> bool {
    match (s.resolve(ty), v) {
        (Ty::List(t), TVal::List(_, xs)) | (Ty::Set(t), TVal::Set(_, xs)) => xs.iter().any(|x| mistyped_union_in(s, t, x)),
        (Ty::Map(k, vt), TVal::Map(_, _, es)) => es.iter().any(|(a, b)| mistyped_union_in(s, k, a) || mistyped_union_in(s, vt, b)),
        (Ty::Ref(d), TVal::Struct(fs)) => {
            let def = &s.defs[*d];
            match def.kind {
                Kind::Struct | Kind::Exception | Kind::Union => mistyped_union_in_fields(s, &def.fields, def.kind == Kind::Union, fs),
                _ => false,
            }
        }
        _ => false,
    }
}

fn mistyped_union_in_fields(s: &Schema, fields: &[Field], is_union: bool, fs: &[(i16, TVal)]) -> bool {
    fs.iter().any(|(id, v)| match fields.iter().find(|f| f.id == *id) {
        Some(f) if s.tt(&f.ty) == v.tt() => mistyped_union_in(s, &f.ty, v),
        Some(_) => is_union,
        None => false,
    })
}

fn project_ty(s: &Schema, ty: &Ty, v: &TVal) -> Result<TVal, String> {
    Ok(match (s.resolve(ty), v) {
        (Ty::List(t), TVal::List(tt, xs)) => TVal::List(*tt, xs.iter().map(|x| project_ty(s, t, x)).collect::<Result<Vec<_>, _>>()?),
        (Ty::Set(t), TVal::Set(tt, xs)) => TVal::Set(*tt, xs.iter().map(|x| project_ty(s, t, x)).collect::<Result<Vec<_>, _>>()?),
        (Ty::Map(k, vt), TVal::Map(kt, vtt, es)) => TVal::Map(*kt, *vtt, es.iter().map(|(a, b)| Ok((project_ty(s, k, a)?, project_ty(s, vt, b)?))).collect::<Result<Vec<_>, String>>()?),
        (Ty::Ref(d), TVal::Struct(fs)) => {
            let def = &s.defs[*d];
            match def.kind {
                Kind::Struct | Kind::Exception | Kind::Union => project_fields(s, &def.fields, def.kind == Kind::Union, false, fs)?,
                _ => v.clone(),
            }
        }
        _ => v.clone(),
    })
}

fn project_fields(s: &Schema, fields: &[Field], is_union: bool, ok_empty: bool, fs: &[(i16, TVal)]) -> Result<TVal, String> {
    let mut out: Vec<(i16, TVal)> = vec![];
    if is_union {
        let mut known = vec![];
        for (id, v) in fs {
            if let Some(f) = fields.iter().find(|f| f.id == *id) {
                if s.tt(&f.ty) == v.tt() {
                    known.push((f, v));
                } else {
                    MISTYPED_UNION.with(|c| c.set(true));
                }
            }
        }
        // several fields in one union value, one of them with a KNOWN id but another wire
        // type: what the decoder makes of that variant is the recorded finding; not judged.
        // Fields with UNKNOWN ids next to the known variant(s) are judged: they are skipped.
        let mistyped_here = fs.iter().any(|(id, v)| fields.iter().any(|f| f.id == *id && s.tt(&f.ty) != v.tt()));
        if fs.len() > 1 && mistyped_here {
            ERR_ALSO_OK.with(|c| c.set(true));
        }
        if fs.len() > 1 && !known.is_empty() && known.len() < fs.len() {
            UNION_EXTRA_UNKNOWN.with(|c| c.set(true));
        }
        return match known.len() {
            0 => {
                if ok_empty {
                    Ok(TVal::Struct(vec![]))
                } else {
                    Err("union-without-known-variant".into())
                }
            }
            1 => Ok(TVal::Struct(vec![(known[0].0.id, project_ty(s, &known[0].0.ty, known[0].1)?)])),
            _ => Err("union-with-several-variants".into()),
        };
    }
    for f in fields {
        // last occurrence with the declared wire type wins
        let hit = fs.iter().rev().find(|(id, v)| *id == f.id && v.tt() == s.tt(&f.ty));
        match hit {
            Some((_, v)) => out.push((f.id, project_ty(s, &f.ty, v)?)),
            None => match f.req {
                Req::Required if f.default.is_none() => return Err("required-field-missing".into()),
                Req::Required => {
                    ERR_ALSO_OK.with(|c| c.set(true));
                    if let Some(v) = s.field_default_present(f) {
                        out.push((f.id, v));
                    }
                }
                _ => {
                    if let Some(v) = s.field_default_present(f) {
                        out.push((f.id, v));
                    }
                }
            },
        }
    }
    out.sort_by_key(|x| x.0);
    Ok(TVal::Struct(out))
}

/// every field id present in `v` is declared and carries its declared wire type
pub fn conforms(s: &Schema, fields: &[Field], _is_union: bool, v: &TVal) -> Option<String> {
    if let TVal::Struct(fs) = v {
        for (id, fv) in fs {
            match fields.iter().find(|f| f.id == *id) {
                None => return Some(format!("field id {} is not declared", id)),
                Some(f) => {
                    if s.tt(&f.ty) != fv.tt() {
                        return Some(format!("field {} has wire type {} but is declared {}", id, fv.tt().name(), s.tt(&f.ty).name()));
                    }
                    if let (Ty::Ref(d), TVal::Struct(_)) = (s.resolve(&f.ty), fv) {
                        let def = &s.defs[*d];
                        if matches!(def.kind, Kind::Struct | Kind::Exception | Kind::Union) {
                            if let Some(w) = conforms(s, &def.fields, def.kind == Kind::Union, fv) {
                                return Some(format!("in field {}: {}", id, w));
                            }
                        }
                    }
                }
            }
        }
    }
    None
}

/// does the type (transitively) contain a list whose elements own heap memory?
/// (used to attribute leak observations to the known list-decode defect)
pub fn reaches_list_of_heap(s: &Schema, sh: &Shape, keep: bool) -> bool {
    // with keep_unknown_fields every struct-like owns heap memory (its `_unknown_fields` deque)
    if keep {
        return reaches_list_of_heap_inner(s, sh, &|d| !matches!(s.defs[d].kind, Kind::Enum(_) | Kind::Typedef(_)));
    }
    reaches_list_of_heap_inner(s, sh, &|_| false)
}

fn reaches_list_of_heap_inner(s: &Schema, sh: &Shape, struct_owns_heap: &dyn Fn(usize) -> bool) -> bool {
    fn heap(s: &Schema, ty: &Ty, seen: &mut Vec<usize>, soh: &dyn Fn(usize) -> bool) -> bool {
        match s.resolve(ty) {
            Ty::Str | Ty::Bin | Ty::List(_) | Ty::Set(_) | Ty::Map(..) => true,
            Ty::Ref(d) => {
                if soh(*d) || seen.contains(d) {
                    return true;
                }
                seen.push(*d);
                let def = &s.defs[*d];
                match def.kind {
                    Kind::Enum(_) => false,
                    _ => def.fields.iter().any(|f| heap(s, &f.ty, seen, soh)),
                }
            }
            _ => false,
        }
    }
    fn go(s: &Schema, ty: &Ty, seen: &mut Vec<usize>, soh: &dyn Fn(usize) -> bool) -> bool {
        match s.resolve(ty) {
            Ty::List(t) => heap(s, t, &mut vec![], soh) || go(s, t, seen, soh),
            Ty::Set(t) => go(s, t, seen, soh),
            Ty::Map(k, v) => go(s, k, seen, soh) || go(s, v, seen, soh),
            Ty::Ref(d) => {
                if seen.contains(d) {
                    return false;
                }
                seen.push(*d);
                s.defs[*d].fields.iter().any(|f| go(s, &f.ty, seen, soh))
            }
            _ => false,
        }
    }
    match sh {
        Shape::Def(i) => go(s, &Ty::Ref(*i), &mut vec![], struct_owns_heap),
        _ => s.target_fields(sh).0.iter().any(|f| go(s, &f.ty, &mut vec![], struct_owns_heap)),
    }
}

/// Does the value hold, at a position the reader types as a list of heap-owning elements, a list
/// with at least TWO elements? The recorded list-decode defect leaks elements 0..k when element
/// k >= 1 fails; a strict prefix of the encoding of a value without such a list cannot show it.
pub fn value_has_heap_list_ge2(s: &Schema, sh: &Shape, x: &TVal, keep: bool) -> bool {
    let soh = |d: usize| keep && !matches!(s.defs[d].kind, Kind::Enum(_) | Kind::Typedef(_));
    fn heap(s: &Schema, ty: &Ty, seen: &mut Vec<usize>, soh: &dyn Fn(usize) -> bool) -> bool {
        match s.resolve(ty) {
            Ty::Str | Ty::Bin | Ty::List(_) | Ty::Set(_) | Ty::Map(..) => true,
            Ty::Ref(d) => {
                if soh(*d) || seen.contains(d) {
                    return true;
                }
                seen.push(*d);
                let def = &s.defs[*d];
                match def.kind {
                    Kind::Enum(_) => false,
                    _ => def.fields.iter().any(|f| heap(s, &f.ty, seen, soh)),
                }
            }
            _ => false,
        }
    }
    fn in_fields(s: &Schema, fields: &[Field], fs: &[(i16, TVal)], soh: &dyn Fn(usize) -> bool) -> bool {
        fs.iter().any(|(id, v)| match fields.iter().find(|f| f.id == *id) {
            Some(f) if s.tt(&f.ty) == v.tt() => go(s, &f.ty, v, soh),
            _ => false,
        })
    }
    fn go(s: &Schema, ty: &Ty, v: &TVal, soh: &dyn Fn(usize) -> bool) -> bool {
        match (s.resolve(ty), v) {
            (Ty::List(t), TVal::List(_, xs)) => (xs.len() >= 2 && heap(s, t, &mut vec![], soh)) || xs.iter().any(|x| go(s, t, x, soh)),
            (Ty::Set(t), TVal::Set(_, xs)) => xs.iter().any(|x| go(s, t, x, soh)),
            (Ty::Map(k, vt), TVal::Map(_, _, es)) => es.iter().any(|(a, b)| go(s, k, a, soh) || go(s, vt, b, soh)),
            (Ty::Ref(d), TVal::Struct(fs)) => in_fields(s, &s.defs[*d].fields, fs, soh),
            _ => false,
        }
    }
    match sh {
        Shape::Def(i) => go(s, &Ty::Ref(*i), x, &soh),
        _ => match x {
            TVal::Struct(fs) => in_fields(s, &s.target_fields(sh).0, fs, &soh),
            _ => false,
        },
    }
}

/// struct / exception definitions named directly (not through a container or a
/// typedef) as a method argument, return or throws type: pilota-build emits a
/// different sync decoder for these when `keep_unknown_fields` is on
pub fn arg_defs(s: &Schema) -> Vec<usize> {
    let mut out = vec![];
    let mut add = |ty: &Ty| {
        if let Ty::Ref(d) = ty {
            if matches!(s.defs[*d].kind, Kind::Struct | Kind::Exception) && !out.contains(d) {
                out.push(*d);
            }
        }
    };
    for svc in &s.services {
        for m in &svc.methods {
            if let Some(r) = &m.ret {
                add(r);
            }
            for f in m.args.iter().chain(m.throws.iter()) {
                add(&f.ty);
            }
        }
    }
    out
}

/// Can decoding `x` as `sh` make the keep-mode argument-type decoder take its "rest of the
/// buffer" exit on the UNCHANGED generator? That exit is taken when the countdown of declared
/// fields of an `arg_defs` struct reaches zero, i.e. when an instance of such a struct carries
/// at least as many occurrences of declared (id, wire type) pairs as the struct declares fields
/// (a struct without fields: always). Inputs for which this is false cannot show that defect.
/// `filled`: the bytes that are decoded come from pilota's own encoder, which writes every
/// non-optional field (defaults filled in), not from the reference encoding of `x` itself.
pub fn fastpath_reachable_in(s: &Schema, sh: &Shape, x: &TVal, filled: bool) -> bool {
    let args = arg_defs(s);
    if args.is_empty() {
        return false;
    }
    fn in_fields(s: &Schema, fields: &[Field], fs: &[(i16, TVal)], args: &[usize], filled: bool) -> bool {
        fs.iter().any(|(id, v)| match fields.iter().find(|f| f.id == *id) {
            Some(f) if s.tt(&f.ty) == v.tt() => go(s, &f.ty, v, args, filled),
            _ => false,
        })
    }
    fn ty_reaches(s: &Schema, ty: &Ty, seen: &mut Vec<usize>, args: &[usize]) -> bool {
        match s.resolve(ty) {
            Ty::List(t) | Ty::Set(t) => ty_reaches(s, t, seen, args),
            Ty::Map(k, v) => ty_reaches(s, k, seen, args) || ty_reaches(s, v, seen, args),
            Ty::Ref(d) => {
                if args.contains(d) {
                    return true;
                }
                if seen.contains(d) {
                    return false;
                }
                seen.push(*d);
                s.defs[*d].fields.iter().any(|f| ty_reaches(s, &f.ty, seen, args))
            }
            _ => false,
        }
    }
    fn go(s: &Schema, ty: &Ty, v: &TVal, args: &[usize], filled: bool) -> bool {
        match (s.resolve(ty), v) {
            (Ty::List(t), TVal::List(_, xs)) | (Ty::Set(t), TVal::Set(_, xs)) => xs.iter().any(|x| go(s, t, x, args, filled)),
            (Ty::Map(k, vt), TVal::Map(_, _, es)) => es.iter().any(|(a, b)| go(s, k, a, args, filled) || go(s, vt, b, args, filled)),
            (Ty::Ref(d), TVal::Struct(fs)) => {
                let def = &s.defs[*d];
                if !matches!(def.kind, Kind::Struct | Kind::Exception | Kind::Union) {
                    return false;
                }
                let mut matching = fs.iter().filter(|(id, v)| def.fields.iter().any(|f| f.id == *id && s.tt(&f.ty) == v.tt())).count();
                if filled {
                    // pilota's encoder writes every field that is not optional, and an optional one
                    // that has a default (its Default is Some(default)); what such an absent field
                    // holds on the wire is the default VALUE: when its type can reach an argument
                    // struct at all, that instance is taken to be complete
                    let written_anyway = |f: &&Field| (f.req != Req::Optional || f.default.is_some()) && !fs.iter().any(|(id, _)| *id == f.id);
                    matching += def.fields.iter().filter(written_anyway).count();
                    if def.fields.iter().filter(written_anyway).any(|f| ty_reaches(s, &f.ty, &mut vec![], args)) {
                        return true;
                    }
                }
                if args.contains(d) && matching >= def.fields.len() {
                    return true;
                }
                in_fields(s, &def.fields, fs, args, filled)
            }
            _ => false,
        }
    }
    match sh {
        Shape::Def(i) => go(s, &Ty::Ref(*i), x, &args, filled),
        _ => {
            let (fields, is_union, _) = s.target_fields(sh);
            match x {
                TVal::Struct(fs) => {
                    // (*Args* structs: a non-optional argument that the value leaves out is written
                    // by pilota's encoder with its default)
                    let written_anyway = filled
                        && !is_union
                        && fields.iter().any(|f| (f.req != Req::Optional || f.default.is_some()) && !fs.iter().any(|(id, _)| *id == f.id) && ty_reaches(s, &f.ty, &mut vec![], &args));
                    written_anyway || in_fields(s, &fields, fs, &args, filled)
                }
                _ => false,
            }
        }
    }
}

/// does decoding a value of this shape run the decoder of a definition in `arg_defs`?
pub fn reaches_arg_def(s: &Schema, sh: &Shape) -> bool {
    let args = arg_defs(s);
    if args.is_empty() {
        return false;
    }
    fn go(s: &Schema, ty: &Ty, seen: &mut Vec<usize>, args: &[usize]) -> bool {
        match s.resolve(ty) {
            Ty::List(t) | Ty::Set(t) => go(s, t, seen, args),
            Ty::Map(k, v) => go(s, k, seen, args) || go(s, v, seen, args),
            Ty::Ref(d) => {
                if args.contains(d) {
                    return true;
                }
                if seen.contains(d) {
                    return false;
                }
                seen.push(*d);
                s.defs[*d].fields.iter().any(|f| go(s, &f.ty, seen, args))
            }
            _ => false,
        }
    }
    match sh {
        Shape::Def(i) => go(s, &Ty::Ref(*i), &mut vec![], &args),
        _ => s.target_fields(sh).0.iter().any(|f| go(s, &f.ty, &mut vec![], &args)),
    }
}
