//! Protobuf: schema model, the document generator `G_proto`, a .proto
//! renderer, schema-directed values, and an independent reference codec
//! written from the protobuf encoding guide (varint, ZigZag, little-endian
//! fixed widths, length-delimited, packed repeated, map entries key=1/value=2,
//! groups skipped) with a *stream decoder implementing merge semantics*
//! (last-wins scalars, appended repeated fields, map insert-replace, oneof
//! last-member-wins with same-member messages merged, embedded messages merged
//! field-wise, unknown fields skipped, recursion budget). No pilota code.

use crate::rng::Rng;
use crate::tval::{interesting_f64_bits, interesting_i64};

#[derive(Clone, Debug, PartialEq)]
pub enum PTy {
    Double,
    Float,
    Int32,
    Int64,
    UInt32,
    UInt64,
    SInt32,
    SInt64,
    Fixed32,
    Fixed64,
    SFixed32,
    SFixed64,
    Bool,
    String,
    Bytes,
    Msg(usize),
    Enum(usize),
}

pub const SCALARS: [PTy; 15] = [
    PTy::Double,
    PTy::Float,
    PTy::Int32,
    PTy::Int64,
    PTy::UInt32,
    PTy::UInt64,
    PTy::SInt32,
    PTy::SInt64,
    PTy::Fixed32,
    PTy::Fixed64,
    PTy::SFixed32,
    PTy::SFixed64,
    PTy::Bool,
    PTy::String,
    PTy::Bytes,
];

impl PTy {
    pub fn name(&self) -> &'static str {
        match self {
            PTy::Double => "double",
            PTy::Float => "float",
            PTy::Int32 => "int32",
            PTy::Int64 => "int64",
            PTy::UInt32 => "uint32",
            PTy::UInt64 => "uint64",
            PTy::SInt32 => "sint32",
            PTy::SInt64 => "sint64",
            PTy::Fixed32 => "fixed32",
            PTy::Fixed64 => "fixed64",
            PTy::SFixed32 => "sfixed32",
            PTy::SFixed64 => "sfixed64",
            PTy::Bool => "bool",
            PTy::String => "string",
            PTy::Bytes => "bytes",
            PTy::Msg(_) => "message",
            PTy::Enum(_) => "enum",
        }
    }
    /// wire type: 0 varint, 1 fixed64, 2 length-delimited, 5 fixed32
    pub fn wire(&self) -> u8 {
        match self {
            PTy::Double | PTy::Fixed64 | PTy::SFixed64 => 1,
            PTy::Float | PTy::Fixed32 | PTy::SFixed32 => 5,
            PTy::String | PTy::Bytes | PTy::Msg(_) => 2,
            _ => 0,
        }
    }
    pub fn packable(&self) -> bool {
        !matches!(self, PTy::String | PTy::Bytes | PTy::Msg(_))
    }
    pub fn map_key_ok(&self) -> bool {
        matches!(self, PTy::Int32 | PTy::Int64 | PTy::UInt32 | PTy::UInt64 | PTy::SInt32 | PTy::SInt64 | PTy::Fixed32 | PTy::Fixed64 | PTy::SFixed32 | PTy::SFixed64 | PTy::Bool | PTy::String)
    }
}

#[derive(Copy, Clone, Debug, PartialEq)]
pub enum Label {
    /// proto3 field without a label: implicit presence
    Implicit,
    Optional,
    Required,
    Repeated,
}

#[derive(Clone, Debug, PartialEq)]
pub enum FKind {
    Plain(Label, PTy),
    Map(PTy, PTy),
}

#[derive(Clone, Debug)]
pub struct PField {
    pub num: u32,
    pub name: String,
    pub kind: FKind,
    /// index into `PMsg::oneofs`
    pub oneof: Option<usize>,
}

#[derive(Clone, Debug)]
pub struct PMsg {
    pub name: String,
    pub parent: Option<usize>,
    pub fields: Vec<PField>,
    pub oneofs: Vec<String>,
}

#[derive(Clone, Debug)]
pub struct PEnum {
    pub name: String,
    pub parent: Option<usize>,
    pub values: Vec<(String, i32)>,
}

#[derive(Clone, Debug)]
pub struct PSchema {
    pub proto3: bool,
    pub package: Option<String>,
    pub msgs: Vec<PMsg>,
    pub enums: Vec<PEnum>,
    /// (service name, [(rpc name, input msg, output msg)])
    pub services: Vec<(String, Vec<(String, usize, usize)>)>,
}

// ---------------------------------------------------------------------------
// values

#[derive(Clone, Debug, PartialEq)]
pub enum PV {
    /// int32/int64/sint*/sfixed*/bool/enum, as the VALUE (not the wire form)
    Int(i64),
    /// uint32/uint64/fixed32/fixed64
    UInt(u64),
    F32(u32),
    F64(u64),
    Bytes(Vec<u8>),
    Msg(PMsgVal),
    Entry(Box<PV>, Box<PV>),
}

/// field occurrences in wire order
#[derive(Clone, Debug, PartialEq, Default)]
pub struct PMsgVal(pub Vec<(u32, PV)>);

impl PMsgVal {
    pub fn render(&self, max: usize) -> String {
        let mut s = format!("{:?}", self);
        if s.len() > max {
            let mut cut = max;
            while !s.is_char_boundary(cut) {
                cut -= 1;
            }
            s.truncate(cut);
            s.push('…');
        }
        s
    }
}

// ---------------------------------------------------------------------------
// wire primitives

pub fn put_varint(out: &mut Vec<u8>, mut x: u64) {
    loop {
        let b = (x & 0x7f) as u8;
        x >>= 7;
        if x == 0 {
            out.push(b);
            return;
        }
        out.push(b | 0x80);
    }
}

pub fn zz32(n: i32) -> u32 {
    ((n << 1) ^ (n >> 31)) as u32
}
pub fn zz64(n: i64) -> u64 {
    ((n << 1) ^ (n >> 63)) as u64
}
pub fn unzz64(z: u64) -> i64 {
    ((z >> 1) as i64) ^ -((z & 1) as i64)
}

fn put_key(out: &mut Vec<u8>, num: u32, wire: u8) {
    put_varint(out, ((num as u64) << 3) | wire as u64);
}

fn scalar_bytes(ty: &PTy, v: &PV, out: &mut Vec<u8>) {
    match (ty, v) {
        (PTy::Int32, PV::Int(i)) => put_varint(out, (*i as i32) as i64 as u64),
        (PTy::Int64, PV::Int(i)) => put_varint(out, *i as u64),
        (PTy::Enum(_), PV::Int(i)) => put_varint(out, (*i as i32) as i64 as u64),
        (PTy::Bool, PV::Int(i)) => put_varint(out, (*i != 0) as u64),
        (PTy::SInt32, PV::Int(i)) => put_varint(out, zz32(*i as i32) as u64),
        (PTy::SInt64, PV::Int(i)) => put_varint(out, zz64(*i)),
        (PTy::UInt32, PV::UInt(u)) => put_varint(out, *u as u32 as u64),
        (PTy::UInt64, PV::UInt(u)) => put_varint(out, *u),
        (PTy::Fixed32, PV::UInt(u)) => out.extend_from_slice(&(*u as u32).to_le_bytes()),
        (PTy::Fixed64, PV::UInt(u)) => out.extend_from_slice(&u.to_le_bytes()),
        (PTy::SFixed32, PV::Int(i)) => out.extend_from_slice(&(*i as i32).to_le_bytes()),
        (PTy::SFixed64, PV::Int(i)) => out.extend_from_slice(&i.to_le_bytes()),
        (PTy::Float, PV::F32(b)) => out.extend_from_slice(&b.to_le_bytes()),
        (PTy::Double, PV::F64(b)) => out.extend_from_slice(&b.to_le_bytes()),
        _ => panic!("scalar_bytes: {:?} {:?}", ty, v),
    }
}

#[derive(Clone, Debug, Default)]
pub struct PKnobs {
    /// 0 = unpacked, 1 = one packed run per maximal group of consecutive occurrences, 2 = packed runs of at most 2
    pub packing: u8,
    /// map entries: 0 = key,value; 1 = value,key; 2 = omit key when default; 3 = omit value when default
    pub map_entry: u8,
}

/// Encode the occurrences in the given order.
pub fn encode(s: &PSchema, m: usize, v: &PMsgVal, k: &PKnobs) -> Vec<u8> {
    let mut out = Vec::new();
    let msg = &s.msgs[m];
    let mut i = 0;
    while i < v.0.len() {
        let (num, pv) = &v.0[i];
        let f = msg.fields.iter().find(|f| f.num == *num);
        match f {
            None => {
                // unknown field occurrence (only produced by the unknown-field
                // injector): raw
                if let PV::Bytes(raw) = pv {
                    out.extend_from_slice(raw);
                }
                i += 1;
            }
            Some(f) => match &f.kind {
                FKind::Plain(Label::Repeated, ty) if ty.packable() && k.packing > 0 => {
                    // gather the run of consecutive occurrences of this field
                    let mut j = i;
                    while j < v.0.len() && v.0[j].0 == *num {
                        j += 1;
                    }
                    let maxrun = if k.packing == 2 { 2 } else { usize::MAX };
                    let mut a = i;
                    while a < j {
                        let b = (a + maxrun.min(j - a)).min(j);
                        let mut payload = vec![];
                        for (_, x) in &v.0[a..b] {
                            scalar_bytes(ty, x, &mut payload);
                        }
                        put_key(&mut out, *num, 2);
                        put_varint(&mut out, payload.len() as u64);
                        out.extend_from_slice(&payload);
                        a = b;
                    }
                    i = j;
                }
                FKind::Plain(_, ty) => {
                    encode_one(s, *num, ty, pv, k, &mut out);
                    i += 1;
                }
                FKind::Map(kt, vt) => {
                    if let PV::Entry(kk, vv) = pv {
                        let mut e = vec![];
                        let key_default = is_default(s, kt, kk);
                        let val_default = is_default(s, vt, vv);
                        let wk = !(k.map_entry == 2 && key_default);
                        let wv = !(k.map_entry == 3 && val_default) || matches!(vt, PTy::Msg(_));
                        if k.map_entry == 1 {
                            if wv {
                                encode_one(s, 2, vt, vv, k, &mut e);
                            }
                            if wk {
                                encode_one(s, 1, kt, kk, k, &mut e);
                            }
                        } else {
                            if wk {
                                encode_one(s, 1, kt, kk, k, &mut e);
                            }
                            if wv {
                                encode_one(s, 2, vt, vv, k, &mut e);
                            }
                        }
                        put_key(&mut out, *num, 2);
                        put_varint(&mut out, e.len() as u64);
                        out.extend_from_slice(&e);
                    }
                    i += 1;
                }
            },
        }
    }
    out
}

fn encode_one(s: &PSchema, num: u32, ty: &PTy, pv: &PV, k: &PKnobs, out: &mut Vec<u8>) {
    match (ty, pv) {
        (PTy::String, PV::Bytes(b)) | (PTy::Bytes, PV::Bytes(b)) => {
            put_key(out, num, 2);
            put_varint(out, b.len() as u64);
            out.extend_from_slice(b);
        }
        (PTy::Msg(mi), PV::Msg(mv)) => {
            let inner = encode(s, *mi, mv, k);
            put_key(out, num, 2);
            put_varint(out, inner.len() as u64);
            out.extend_from_slice(&inner);
        }
        _ => {
            put_key(out, num, ty.wire());
            scalar_bytes(ty, pv, out);
        }
    }
}

pub fn default_of(s: &PSchema, ty: &PTy) -> PV {
    match ty {
        PTy::Double => PV::F64(0),
        PTy::Float => PV::F32(0),
        PTy::UInt32 | PTy::UInt64 | PTy::Fixed32 | PTy::Fixed64 => PV::UInt(0),
        PTy::String | PTy::Bytes => PV::Bytes(vec![]),
        PTy::Msg(_) => PV::Msg(PMsgVal(vec![])),
        PTy::Enum(e) => {
            // proto3: 0; proto2: the first declared value
            if s.proto3 { PV::Int(0) } else { PV::Int(s.enums[*e].values[0].1 as i64) }
        }
        _ => PV::Int(0),
    }
}

fn is_default(s: &PSchema, ty: &PTy, v: &PV) -> bool {
    if matches!(ty, PTy::Msg(_)) {
        return false;
    }
    *v == default_of(s, ty)
}

// ---------------------------------------------------------------------------
// reference stream decoder with merge semantics

#[derive(Debug, Clone, PartialEq)]
pub enum PErr {
    Eof,
    Varint,
    WireType(u8),
    Depth,
    Tag,
    Group,
}

struct Rd<'a> {
    b: &'a [u8],
    pos: usize,
}

impl<'a> Rd<'a> {
    fn varint(&mut self) -> Result<u64, PErr> {
        let mut x = 0u64;
        for i in 0..10 {
            let byte = *self.b.get(self.pos).ok_or(PErr::Eof)?;
            self.pos += 1;
            if i < 9 || byte <= 1 {
                x |= ((byte & 0x7f) as u64) << (7 * i);
            } else {
                return Err(PErr::Varint);
            }
            if byte & 0x80 == 0 {
                return Ok(x);
            }
        }
        Err(PErr::Varint)
    }
    fn take(&mut self, n: usize) -> Result<&'a [u8], PErr> {
        if self.b.len() - self.pos < n {
            return Err(PErr::Eof);
        }
        let s = &self.b[self.pos..self.pos + n];
        self.pos += n;
        Ok(s)
    }
    fn done(&self) -> bool {
        self.pos >= self.b.len()
    }
}

fn read_scalar(ty: &PTy, wire: u8, r: &mut Rd) -> Result<PV, PErr> {
    if wire != ty.wire() {
        return Err(PErr::WireType(wire));
    }
    Ok(match ty {
        PTy::Int32 => PV::Int(r.varint()? as i32 as i64),
        PTy::Int64 => PV::Int(r.varint()? as i64),
        PTy::Enum(_) => PV::Int(r.varint()? as i32 as i64),
        PTy::Bool => PV::Int((r.varint()? != 0) as i64),
        PTy::SInt32 => PV::Int(unzz64(r.varint()? as u32 as u64) as i32 as i64),
        PTy::SInt64 => PV::Int(unzz64(r.varint()?)),
        PTy::UInt32 => PV::UInt(r.varint()? as u32 as u64),
        PTy::UInt64 => PV::UInt(r.varint()?),
        PTy::Fixed32 => PV::UInt(u32::from_le_bytes(r.take(4)?.try_into().unwrap()) as u64),
        PTy::Fixed64 => PV::UInt(u64::from_le_bytes(r.take(8)?.try_into().unwrap())),
        PTy::SFixed32 => PV::Int(i32::from_le_bytes(r.take(4)?.try_into().unwrap()) as i64),
        PTy::SFixed64 => PV::Int(i64::from_le_bytes(r.take(8)?.try_into().unwrap())),
        PTy::Float => PV::F32(u32::from_le_bytes(r.take(4)?.try_into().unwrap())),
        PTy::Double => PV::F64(u64::from_le_bytes(r.take(8)?.try_into().unwrap())),
        PTy::String | PTy::Bytes => {
            let n = r.varint()? as usize;
            PV::Bytes(r.take(n)?.to_vec())
        }
        PTy::Msg(_) => unreachable!(),
    })
}

fn skip(wire: u8, num: u32, r: &mut Rd, depth: usize) -> Result<(), PErr> {
    if depth > 100 {
        return Err(PErr::Depth);
    }
    match wire {
        0 => {
            r.varint()?;
        }
        1 => {
            r.take(8)?;
        }
        2 => {
            let n = r.varint()? as usize;
            r.take(n)?;
        }
        5 => {
            r.take(4)?;
        }
        3 => loop {
            let key = r.varint()?;
            let (n2, w2) = ((key >> 3) as u32, (key & 7) as u8);
            if w2 == 4 {
                if n2 != num {
                    return Err(PErr::Group);
                }
                break;
            }
            skip(w2, n2, r, depth + 1)?;
        },
        w => return Err(PErr::WireType(w)),
    }
    Ok(())
}

/// merge the records of `bytes` into `into` (the in-memory message of type `m`)
pub fn merge_into(s: &PSchema, m: usize, bytes: &[u8], into: &mut PMsgVal, depth: usize) -> Result<(), PErr> {
    if depth > 100 {
        return Err(PErr::Depth);
    }
    let msg = &s.msgs[m];
    let mut r = Rd { b: bytes, pos: 0 };
    while !r.done() {
        let key = r.varint()?;
        if key > u32::MAX as u64 {
            return Err(PErr::Tag);
        }
        let (num, wire) = ((key >> 3) as u32, (key & 7) as u8);
        if num == 0 {
            return Err(PErr::Tag);
        }
        let f = match msg.fields.iter().find(|f| f.num == num) {
            Some(f) => f,
            None => {
                skip(wire, num, &mut r, depth)?;
                continue;
            }
        };
        match &f.kind {
            FKind::Plain(label, ty) => {
                if let PTy::Msg(mi) = ty {
                    if wire != 2 {
                        return Err(PErr::WireType(wire));
                    }
                    let n = r.varint()? as usize;
                    let body = r.take(n)?;
                    if *label == Label::Repeated {
                        let mut nv = PMsgVal(vec![]);
                        merge_into(s, *mi, body, &mut nv, depth + 1)?;
                        into.0.push((num, PV::Msg(nv)));
                    } else {
                        // singular message: merge into the existing one; a oneof member replaces other members
                        if let Some(o) = f.oneof {
                            clear_oneof_except(msg, o, num, into);
                        }
                        let pos = into.0.iter().position(|(n2, _)| *n2 == num);
                        match pos {
                            Some(p) => {
                                if let PV::Msg(existing) = &mut into.0[p].1 {
                                    merge_into(s, *mi, body, existing, depth + 1)?;
                                }
                            }
                            None => {
                                let mut nv = PMsgVal(vec![]);
                                merge_into(s, *mi, body, &mut nv, depth + 1)?;
                                into.0.push((num, PV::Msg(nv)));
                            }
                        }
                    }
                    continue;
                }
                if *label == Label::Repeated {
                    if wire == 2 && ty.packable() {
                        let n = r.varint()? as usize;
                        let body = r.take(n)?;
                        let mut rr = Rd { b: body, pos: 0 };
                        while !rr.done() {
                            into.0.push((num, read_scalar(ty, ty.wire(), &mut rr)?));
                        }
                    } else {
                        into.0.push((num, read_scalar(ty, wire, &mut r)?));
                    }
                } else {
                    let v = read_scalar(ty, wire, &mut r)?;
                    if let Some(o) = f.oneof {
                        clear_oneof_except(msg, o, num, into);
                    }
                    into.0.retain(|(n2, _)| *n2 != num);
                    into.0.push((num, v));
                }
            }
            FKind::Map(kt, vt) => {
                if wire != 2 {
                    return Err(PErr::WireType(wire));
                }
                let n = r.varint()? as usize;
                let body = r.take(n)?;
                let mut rr = Rd { b: body, pos: 0 };
                let mut key = default_of(s, kt);
                let mut val = default_of(s, vt);
                while !rr.done() {
                    let k2 = rr.varint()?;
                    let (n2, w2) = ((k2 >> 3) as u32, (k2 & 7) as u8);
                    match n2 {
                        1 => key = read_scalar(kt, w2, &mut rr)?,
                        2 => {
                            if let PTy::Msg(mi) = vt {
                                if w2 != 2 {
                                    return Err(PErr::WireType(w2));
                                }
                                let l = rr.varint()? as usize;
                                let b2 = rr.take(l)?;
                                if let PV::Msg(existing) = &mut val {
                                    merge_into(s, *mi, b2, existing, depth + 1)?;
                                }
                            } else {
                                val = read_scalar(vt, w2, &mut rr)?;
                            }
                        }
                        _ => skip(w2, n2, &mut rr, depth)?,
                    }
                }
                // insert-replace
                into.0.retain(|(n2, e)| !(*n2 == num && matches!(e, PV::Entry(k0, _) if **k0 == key)));
                into.0.push((num, PV::Entry(Box::new(key), Box::new(val))));
            }
        }
    }
    Ok(())
}

fn clear_oneof_except(msg: &PMsg, oneof: usize, keep: u32, into: &mut PMsgVal) {
    let members: Vec<u32> = msg.fields.iter().filter(|f| f.oneof == Some(oneof) && f.num != keep).map(|f| f.num).collect();
    into.0.retain(|(n, _)| !members.contains(n));
}

pub fn decode(s: &PSchema, m: usize, bytes: &[u8]) -> Result<PMsgVal, PErr> {
    let mut v = PMsgVal(vec![]);
    merge_into(s, m, bytes, &mut v, 0)?;
    Ok(v)
}

/// Canonical form for comparison: fields ordered by number (repeated
/// occurrences keep their order, map entries ordered by key), implicit-presence
/// fields holding the default dropped, nested messages canonicalised.
pub fn canon(s: &PSchema, m: usize, v: &PMsgVal) -> PMsgVal {
    let msg = &s.msgs[m];
    let mut out: Vec<(u32, PV)> = vec![];
    let mut fields: Vec<&PField> = msg.fields.iter().collect();
    fields.sort_by_key(|f| f.num);
    for f in fields {
        let occ: Vec<&PV> = v.0.iter().filter(|(n, _)| *n == f.num).map(|(_, x)| x).collect();
        match &f.kind {
            FKind::Plain(label, ty) => {
                let cv = |x: &PV| -> PV {
                    match (ty, x) {
                        (PTy::Msg(mi), PV::Msg(mv)) => PV::Msg(canon(s, *mi, mv)),
                        _ => x.clone(),
                    }
                };
                match label {
                    Label::Repeated => {
                        for x in occ {
                            out.push((f.num, cv(x)));
                        }
                    }
                    Label::Implicit if f.oneof.is_none() => {
                        if let Some(x) = occ.last() {
                            // implicit presence: a default value is the same as absence
                            // (messages always have explicit presence)
                            if matches!(ty, PTy::Msg(_)) || !is_default(s, ty, x) {
                                out.push((f.num, cv(x)));
                            }
                        }
                    }
                    _ => {
                        if let Some(x) = occ.last() {
                            out.push((f.num, cv(x)));
                        }
                    }
                }
            }
            FKind::Map(_, vt) => {
                let mut es: Vec<(Vec<u8>, PV)> = vec![];
                for x in occ {
                    if let PV::Entry(k, val) = x {
                        let mut kb = vec![];
                        match &**k {
                            PV::Bytes(b) => kb.extend_from_slice(b),
                            PV::Int(i) => kb.extend_from_slice(&i.to_be_bytes()),
                            PV::UInt(u) => kb.extend_from_slice(&u.to_be_bytes()),
                            other => kb.extend_from_slice(format!("{:?}", other).as_bytes()),
                        }
                        let val2 = match (vt, &**val) {
                            (PTy::Msg(mi), PV::Msg(mv)) => PV::Msg(canon(s, *mi, mv)),
                            (_, o) => o.clone(),
                        };
                        es.retain(|(k0, _)| *k0 != kb);
                        es.push((kb, PV::Entry(k.clone(), Box::new(val2))));
                    }
                }
                es.sort_by(|a, b| a.0.cmp(&b.0));
                for (_, e) in es {
                    out.push((f.num, e));
                }
            }
        }
    }
    PMsgVal(out)
}

// ---------------------------------------------------------------------------
// schema-directed values

pub struct PGen<'a> {
    pub s: &'a PSchema,
    pub rng: &'a mut Rng,
    pub max_depth: usize,
    /// 0 minimal, 1 random, 2 everything present
    pub fill: u8,
}

impl<'a> PGen<'a> {
    fn string(&mut self) -> Vec<u8> {
        const A: [&str; 7] = ["a", "Z", "0", " ", "é", "中", "🦀"];
        let n = match self.rng.below(6) {
            0 => 0,
            1 => 127,
            2 => 128,
            _ => self.rng.usize_below(10),
        };
        let mut s = String::new();
        while s.len() < n {
            let c = *self.rng.pick(&A);
            if s.len() + c.len() > n { s.push('x') } else { s.push_str(c) }
        }
        s.into_bytes()
    }

    pub fn scalar(&mut self, ty: &PTy) -> PV {
        match ty {
            // NaN (typed equality) and -0.0 are not generated: -0.0 == 0.0 for the typed
            // side, so an implicit-presence field or map value holding it is legitimately
            // treated as the default and comes back as +0.0
            PTy::Double => loop {
                let b = interesting_f64_bits(self.rng);
                if !f64::from_bits(b).is_nan() && b != (-0.0f64).to_bits() {
                    return PV::F64(b);
                }
            },
            PTy::Float => loop {
                let b = match self.rng.below(6) {
                    0 => 0,
                    1 => 1.5f32.to_bits(),
                    2 => f32::MAX.to_bits(),
                    3 => (-2.5f32).to_bits(),
                    4 => 0x0102_0304,
                    _ => self.rng.next_u32(),
                };
                if !f32::from_bits(b).is_nan() && b != (-0.0f32).to_bits() {
                    return PV::F32(b);
                }
            },
            PTy::Int32 | PTy::SInt32 | PTy::SFixed32 => PV::Int(interesting_i64(self.rng, 32)),
            PTy::Int64 | PTy::SInt64 | PTy::SFixed64 => PV::Int(interesting_i64(self.rng, 64)),
            PTy::UInt32 | PTy::Fixed32 => PV::UInt(interesting_i64(self.rng, 64) as u64 & 0xffff_ffff),
            PTy::UInt64 | PTy::Fixed64 => PV::UInt(interesting_i64(self.rng, 64) as u64),
            PTy::Bool => PV::Int(self.rng.below(2) as i64),
            PTy::String => PV::Bytes(self.string()),
            PTy::Bytes => {
                let n = match self.rng.below(8) {
                    0 => 127,
                    1 => 128,
                    2 => 300,
                    _ => self.rng.usize_below(9),
                };
                PV::Bytes(self.rng.bytes(n))
            }
            PTy::Enum(e) => {
                let vals = &self.s.enums[*e].values;
                if self.rng.chance(1, 6) {
                    // an undeclared number. Not 0 for a proto2 enum that does not declare 0: there
                    // the default of the type is its first declared value, and a number that a
                    // closed enum does not have has no agreed reading when an encoder omits "the
                    // default" (map values)
                    let x = interesting_i64(self.rng, 32);
                    if x == 0 && !self.s.proto3 && !vals.iter().any(|v| v.1 == 0) { PV::Int(vals[0].1 as i64) } else { PV::Int(x) }
                } else {
                    PV::Int(vals[self.rng.usize_below(vals.len())].1 as i64)
                }
            }
            PTy::Msg(_) => unreachable!(),
        }
    }

    fn value(&mut self, ty: &PTy, depth: usize) -> PV {
        match ty {
            PTy::Msg(mi) => PV::Msg(self.msg(*mi, depth + 1)),
            t => self.scalar(t),
        }
    }

    /// a canonical-order value of message `m` (occurrences grouped by field, ascending numbers)
    pub fn msg(&mut self, m: usize, depth: usize) -> PMsgVal {
        let msg = self.s.msgs[m].clone();
        let mut out = vec![];
        let mut fields: Vec<&PField> = msg.fields.iter().collect();
        fields.sort_by_key(|f| f.num);
        // choose at most one member per oneof
        let mut chosen: Vec<Option<u32>> = vec![None; msg.oneofs.len()];
        for (oi, c) in chosen.iter_mut().enumerate() {
            let members: Vec<u32> = msg.fields.iter().filter(|f| f.oneof == Some(oi)).map(|f| f.num).collect();
            if !members.is_empty() && (self.fill == 2 || (self.fill == 1 && self.rng.chance(2, 3))) {
                *c = Some(members[self.rng.usize_below(members.len())]);
            }
        }
        for f in fields {
            let deep = depth >= self.max_depth;
            match &f.kind {
                FKind::Plain(label, ty) => {
                    let is_msg = matches!(ty, PTy::Msg(_));
                    if let Some(o) = f.oneof {
                        if chosen[o] == Some(f.num) && !(is_msg && deep) {
                            out.push((f.num, self.value(ty, depth)));
                        }
                        continue;
                    }
                    match label {
                        Label::Required => {
                            let v = if is_msg && deep { PV::Msg(PMsgVal(vec![])) } else { self.value(ty, depth) };
                            out.push((f.num, v));
                        }
                        Label::Repeated => {
                            let n = match self.fill {
                                0 => 0,
                                _ => {
                                    if is_msg && deep {
                                        0
                                    } else {
                                        match self.rng.below(12) {
                                            0 | 1 => 0,
                                            2 | 3 => 1,
                                            4 | 5 => 5,
                                            // a long run of scalars: the packed payload and, unpacked, the
                                            // whole message cross the 1-byte / 2-byte length boundary
                                            6 if !is_msg && depth == 0 => 16 + self.rng.usize_below(150),
                                            _ => 1 + self.rng.usize_below(3),
                                        }
                                    }
                                }
                            };
                            for _ in 0..n {
                                out.push((f.num, self.value(ty, depth)));
                            }
                        }
                        _ => {
                            let present = match self.fill {
                                0 => false,
                                2 => !(is_msg && deep),
                                _ => !(is_msg && deep) && self.rng.chance(2, 3),
                            };
                            if present {
                                out.push((f.num, self.value(ty, depth)));
                            }
                        }
                    }
                }
                FKind::Map(kt, vt) => {
                    let n = if self.fill == 0 || (matches!(vt, PTy::Msg(_)) && deep) {
                        0
                    } else if depth == 0 && self.rng.chance(1, 12) {
                        40
                    } else {
                        self.rng.usize_below(4)
                    };
                    let mut keys: Vec<PV> = vec![];
                    for _ in 0..n {
                        let k = self.scalar(kt);
                        if keys.contains(&k) {
                            continue;
                        }
                        keys.push(k.clone());
                        let v = self.value(vt, depth);
                        out.push((f.num, PV::Entry(Box::new(k), Box::new(v))));
                    }
                }
            }
        }
        PMsgVal(out)
    }
}

/// reorder occurrences: fields in random order, occurrences of one repeated
/// field keep their relative order, occurrences of different fields interleave
pub fn permute(v: &PMsgVal, rng: &mut Rng) -> PMsgVal {
    let mut groups: Vec<(u32, Vec<PV>)> = vec![];
    for (n, x) in &v.0 {
        match groups.iter_mut().find(|g| g.0 == *n) {
            Some(g) => g.1.push(x.clone()),
            None => groups.push((*n, vec![x.clone()])),
        }
    }
    let mut out = vec![];
    let mut cursors: Vec<usize> = vec![0; groups.len()];
    let total: usize = groups.iter().map(|g| g.1.len()).sum();
    while out.len() < total {
        let live: Vec<usize> = (0..groups.len()).filter(|i| cursors[*i] < groups[*i].1.len()).collect();
        let g = live[rng.usize_below(live.len())];
        // take a short run from this group
        let take = 1 + rng.usize_below(2);
        for _ in 0..take {
            if cursors[g] < groups[g].1.len() {
                let x = groups[g].1[cursors[g]].clone();
                let x = match x {
                    PV::Msg(mv) => PV::Msg(permute(&mv, rng)),
                    PV::Entry(k, val) => match *val {
                        PV::Msg(mv) => PV::Entry(k, Box::new(PV::Msg(permute(&mv, rng)))),
                        o => PV::Entry(k, Box::new(o)),
                    },
                    o => o,
                };
                out.push((groups[g].0, x));
                cursors[g] += 1;
            }
        }
    }
    PMsgVal(out)
}

/// raw bytes of an unknown field of the given wire type (field numbers from 5000 up are never declared)
pub fn unknown_field(rng: &mut Rng, depth: usize) -> Vec<u8> {
    let num = 5000 + rng.below(50) as u32;
    let mut out = vec![];
    let w = if depth >= 3 { *rng.pick(&[0u8, 1, 2, 5]) } else { *rng.pick(&[0u8, 1, 2, 5, 3]) };
    put_key(&mut out, num, w);
    match w {
        0 => put_varint(&mut out, rng.next_u64() >> rng.below(64)),
        1 => out.extend(rng.bytes(8)),
        5 => out.extend(rng.bytes(4)),
        2 => {
            let n = rng.usize_below(12);
            put_varint(&mut out, n as u64);
            out.extend(rng.bytes(n));
        }
        _ => {
            // group: nested unknown fields (possibly another group), then END_GROUP
            let n = rng.usize_below(3);
            for _ in 0..n {
                out.extend(unknown_field(rng, depth + 1));
            }
            put_key(&mut out, num, 4);
        }
    }
    out
}

/// split an encoding into its top-level records
pub fn records(bytes: &[u8]) -> Result<Vec<Vec<u8>>, PErr> {
    let mut r = Rd { b: bytes, pos: 0 };
    let mut out = vec![];
    while !r.done() {
        let start = r.pos;
        let key = r.varint()?;
        skip((key & 7) as u8, (key >> 3) as u32, &mut r, 0)?;
        out.push(bytes[start..r.pos].to_vec());
    }
    Ok(out)
}

// ---------------------------------------------------------------------------
// G_proto

const NUMS: [u32; 9] = [1, 2, 3, 15, 16, 2047, 2048, 536_870_911, 18_999];

pub fn generate(seed: u64, proto3: bool, nmsgs: usize) -> PSchema {
    let mut rng = Rng::new(seed ^ 0x9807_0B0F);
    let mut s = PSchema { proto3, package: if rng.chance(2, 3) { Some("p0.q1".to_string()) } else { None }, msgs: vec![], enums: vec![], services: vec![] };
    // enums: two top level
    for e in 0..2 {
        let n = 1 + rng.usize_below(4);
        let mut vals: Vec<(String, i32)> = vec![];
        for k in 0..n {
            let v = if k == 0 && proto3 {
                0
            } else {
                loop {
                    let v = match rng.below(3) {
                        0 => k as i32 + 1,
                        1 => -(rng.below(100) as i32) - 1,
                        _ => rng.below(100000) as i32 + 10,
                    };
                    if !vals.iter().any(|x| x.1 == v) && v != 0 {
                        break v;
                    }
                }
            };
            vals.push((format!("E{}_V{}", e, k), v));
        }
        s.enums.push(PEnum { name: format!("E{}", e), parent: None, values: vals });
    }
    // message shells first (so fields can refer to any message, incl. later ones and themselves)
    let mut counter = 0usize;
    for _ in 0..nmsgs {
        let top = s.msgs.len();
        s.msgs.push(PMsg { name: format!("M{}", counter), parent: None, fields: vec![], oneofs: vec![] });
        counter += 1;
        let nn = rng.usize_below(3);
        for _ in 0..nn {
            let ni = s.msgs.len();
            s.msgs.push(PMsg { name: format!("N{}", counter), parent: Some(top), fields: vec![], oneofs: vec![] });
            counter += 1;
            if rng.chance(1, 3) {
                s.msgs.push(PMsg { name: format!("N{}", counter), parent: Some(ni), fields: vec![], oneofs: vec![] });
                counter += 1;
            }
        }
        if rng.chance(1, 2) {
            let k = s.enums.len();
            let mut vals = vec![(format!("E{}_V0", k), 0)];
            if rng.chance(1, 2) {
                vals.push((format!("E{}_V1", k), 7));
            }
            s.enums.push(PEnum { name: format!("E{}", k), parent: Some(top), values: vals });
        }
    }
    let nm = s.msgs.len();
    for mi in 0..nm {
        let nf = if rng.chance(1, 10) { 0 } else { 1 + rng.usize_below(9) };
        let mut used: Vec<u32> = vec![];
        let mut fields = vec![];
        let mut oneofs: Vec<String> = vec![];
        let mut fcount = 0;
        let pick_num = |rng: &mut Rng, used: &mut Vec<u32>| -> u32 {
            loop {
                let n = if rng.chance(1, 3) { *rng.pick(&NUMS) } else { 1 + rng.below(40) as u32 };
                if !used.contains(&n) && !(19000..=19999).contains(&n) {
                    used.push(n);
                    return n;
                }
            }
        };
        let any_ty = |rng: &mut Rng, s: &PSchema, allow_self: bool| -> PTy {
            match rng.below(10) {
                0 | 1 => {
                    // message reference (a message never refers to itself through a singular required field)
                    let t = rng.usize_below(nm);
                    if t == mi && !allow_self { PTy::Int32 } else { PTy::Msg(t) }
                }
                2 => PTy::Enum(rng.usize_below(s.enums.len())),
                _ => SCALARS[rng.usize_below(SCALARS.len())].clone(),
            }
        };
        for _ in 0..nf {
            fcount += 1;
            let name = format!("f{}", fcount);
            match rng.below(10) {
                0 | 1 => {
                    // map
                    let kt = loop {
                        let t = SCALARS[rng.usize_below(SCALARS.len())].clone();
                        if t.map_key_ok() {
                            break t;
                        }
                    };
                    let vt = any_ty(&mut rng, &s, true);
                    fields.push(PField { num: pick_num(&mut rng, &mut used), name, kind: FKind::Map(kt, vt), oneof: None });
                }
                2 => {
                    // a oneof with 1..4 members (no message that could recurse through the oneof:
                    // see the recorded C14 finding)
                    let oi = oneofs.len();
                    oneofs.push(format!("o{}", oi + 1));
                    let n = 1 + rng.usize_below(4);
                    for k in 0..n {
                        let ty = loop {
                            let t = any_ty(&mut rng, &s, false);
                            if let PTy::Msg(t2) = &t {
                                // only messages declared before this one: no cycle through a oneof
                                if *t2 >= mi {
                                    continue;
                                }
                            }
                            break t;
                        };
                        fields.push(PField { num: pick_num(&mut rng, &mut used), name: format!("f{}_{}", fcount, k), kind: FKind::Plain(if proto3 { Label::Implicit } else { Label::Optional }, ty), oneof: Some(oi) });
                    }
                }
                3 | 4 | 5 => {
                    let ty = any_ty(&mut rng, &s, true);
                    fields.push(PField { num: pick_num(&mut rng, &mut used), name, kind: FKind::Plain(Label::Repeated, ty), oneof: None });
                }
                _ => {
                    let ty = any_ty(&mut rng, &s, true);
                    let label = if proto3 {
                        if rng.chance(1, 3) && !matches!(ty, PTy::Msg(_)) { Label::Optional } else { Label::Implicit }
                    } else if rng.chance(1, 4) && !matches!(ty, PTy::Msg(t) if t >= mi) {
                        // required message fields only point "backwards" (no infinite values)
                        Label::Required
                    } else {
                        Label::Optional
                    };
                    fields.push(PField { num: pick_num(&mut rng, &mut used), name, kind: FKind::Plain(label, ty), oneof: None });
                }
            }
        }
        s.msgs[mi].fields = fields;
        s.msgs[mi].oneofs = oneofs;
    }
    if nm >= 2 {
        s.services.push(("Svc0".into(), vec![("Rpc1".into(), 0, 1), ("Rpc2".into(), 1, 0)]));
    }
    // a fixed message with every scalar type in singular, repeated, map-key, map-value and
    // oneof position, so that the coverage floors of the conformance check are met by
    // construction whatever the seed
    {
        let l = if proto3 { Label::Implicit } else { Label::Optional };
        let mut fields = vec![];
        let mut num = 0u32;
        for t in SCALARS.iter() {
            num += 1;
            fields.push(PField { num, name: format!("f{}", num), kind: FKind::Plain(l, t.clone()), oneof: None });
        }
        for t in SCALARS.iter() {
            num += 1;
            fields.push(PField { num, name: format!("f{}", num), kind: FKind::Plain(Label::Repeated, t.clone()), oneof: None });
        }
        for (k, v) in [(PTy::SInt32, PTy::SInt64), (PTy::Fixed32, PTy::SFixed32), (PTy::SFixed64, PTy::Fixed64), (PTy::SInt64, PTy::SInt32), (PTy::Fixed64, PTy::SFixed64), (PTy::SFixed32, PTy::Fixed32), (PTy::String, PTy::Double), (PTy::Bool, PTy::Bytes)] {
            num += 1;
            fields.push(PField { num, name: format!("f{}", num), kind: FKind::Map(k, v), oneof: None });
        }
        for t in [PTy::SInt32, PTy::SInt64, PTy::Fixed32, PTy::Fixed64, PTy::SFixed32, PTy::SFixed64] {
            num += 1;
            fields.push(PField { num, name: format!("f{}", num), kind: FKind::Plain(l, t), oneof: Some(0) });
        }
        // maps with ENUM values (proto2: the first enumerator of a top-level enum is never 0,
        // so "value equal to the default" and "value 0" are different entries)
        for (k, e) in [(PTy::Int32, 0usize), (PTy::String, 1usize)] {
            num += 1;
            fields.push(PField { num, name: format!("f{}", num), kind: FKind::Map(k, PTy::Enum(e)), oneof: None });
        }
        s.msgs.push(PMsg { name: "A0".into(), parent: None, fields, oneofs: vec!["o1".into()] });
        // directed: a NESTED message with the simple name of that top-level message; it refers to
        // the top-level one (type names are rendered fully qualified), and its parent holds one
        let top = s.msgs.len() - 1;
        let nested = s.msgs.len();
        s.msgs.push(PMsg {
            name: "A0".into(),
            parent: Some(0),
            fields: vec![
                PField { num: 1, name: "top".into(), kind: FKind::Plain(l, PTy::Msg(top)), oneof: None },
                PField { num: 2, name: "x".into(), kind: FKind::Plain(l, PTy::Int32), oneof: None },
                PField { num: 3, name: "tops".into(), kind: FKind::Plain(Label::Repeated, PTy::Msg(top)), oneof: None },
            ],
            oneofs: vec![],
        });
        if !s.msgs[0].fields.iter().any(|f| f.num == 18999) {
            s.msgs[0].fields.push(PField { num: 18999, name: "nested_a0".into(), kind: FKind::Plain(l, PTy::Msg(nested)), oneof: None });
        }
        // directed: SMALL messages whose elements own heap memory (string, bytes, repeated
        // string), as repeated element, singular member and map value of a holder: the fault
        // checks (C10, C19) only take encodings up to a few hundred bytes, which A0 exceeds
        let h0 = s.msgs.len();
        s.msgs.push(PMsg {
            name: "H0".into(),
            parent: None,
            fields: vec![
                PField { num: 1, name: "s".into(), kind: FKind::Plain(l, PTy::String), oneof: None },
                PField { num: 2, name: "b".into(), kind: FKind::Plain(l, PTy::Bytes), oneof: None },
                PField { num: 3, name: "rs".into(), kind: FKind::Plain(Label::Repeated, PTy::String), oneof: None },
            ],
            oneofs: vec![],
        });
        s.msgs.push(PMsg {
            name: "H1".into(),
            parent: None,
            fields: vec![
                PField { num: 1, name: "items".into(), kind: FKind::Plain(Label::Repeated, PTy::Msg(h0)), oneof: None },
                PField { num: 2, name: "one".into(), kind: FKind::Plain(l, PTy::Msg(h0)), oneof: None },
                PField { num: 3, name: "m".into(), kind: FKind::Map(PTy::Int32, PTy::Msg(h0)), oneof: None },
            ],
            oneofs: vec![],
        });
    }
    // no message is recursive THROUGH a oneof member (recorded C14 finding, carried by a
    // directed document): a member whose message type leads back to the message that owns
    // the oneof becomes an int32
    {
        let n = s.msgs.len();
        let succ = |s: &PSchema, m: usize| -> Vec<usize> {
            let mut v = vec![];
            for f in &s.msgs[m].fields {
                match &f.kind {
                    FKind::Plain(_, PTy::Msg(t)) => v.push(*t),
                    FKind::Map(_, PTy::Msg(t)) => v.push(*t),
                    _ => {}
                }
            }
            v
        };
        loop {
            let mut changed = false;
            for m in 0..n {
                for fi in 0..s.msgs[m].fields.len() {
                    if s.msgs[m].fields[fi].oneof.is_none() {
                        continue;
                    }
                    if let FKind::Plain(l, PTy::Msg(t)) = s.msgs[m].fields[fi].kind.clone() {
                        // does t reach m?
                        let mut seen = vec![false; n];
                        let mut stack = vec![t];
                        let mut reaches = false;
                        while let Some(x) = stack.pop() {
                            if x == m {
                                reaches = true;
                                break;
                            }
                            if seen[x] {
                                continue;
                            }
                            seen[x] = true;
                            stack.extend(succ(&s, x));
                        }
                        if reaches {
                            s.msgs[m].fields[fi].kind = FKind::Plain(l, PTy::Int32);
                            changed = true;
                        }
                    }
                }
            }
            if !changed {
                break;
            }
        }
    }
    // a fixed recursive message (depth checks): recursion through a singular field,
    // a repeated field and a map value
    let r = s.msgs.len();
    let l = if proto3 { Label::Implicit } else { Label::Optional };
    s.msgs.push(PMsg {
        name: "R9".into(),
        parent: None,
        fields: vec![
            PField { num: 1, name: "r".into(), kind: FKind::Plain(l, PTy::Msg(r)), oneof: None },
            PField { num: 2, name: "rs".into(), kind: FKind::Plain(Label::Repeated, PTy::Msg(r)), oneof: None },
            PField { num: 3, name: "m".into(), kind: FKind::Map(PTy::Int32, PTy::Msg(r)), oneof: None },
            PField { num: 4, name: "x".into(), kind: FKind::Plain(l, PTy::Int32), oneof: None },
            PField { num: 5, name: "s".into(), kind: FKind::Plain(l, PTy::String), oneof: None },
        ],
        oneofs: vec![],
    });
    s
}

impl PSchema {
    pub fn recursive_msg(&self) -> usize {
        self.msgs.len() - 1
    }
}

impl PSchema {
    pub fn full_name(&self, m: usize) -> String {
        let mut parts = vec![self.msgs[m].name.clone()];
        let mut p = self.msgs[m].parent;
        while let Some(i) = p {
            parts.push(self.msgs[i].name.clone());
            p = self.msgs[i].parent;
        }
        parts.reverse();
        parts.join(".")
    }

    pub fn enum_full_name(&self, e: usize) -> String {
        match self.enums[e].parent {
            Some(p) => format!("{}.{}", self.full_name(p), self.enums[e].name),
            None => self.enums[e].name.clone(),
        }
    }

    fn ty_text(&self, t: &PTy) -> String {
        match t {
            PTy::Msg(m) => match &self.package {
                Some(p) => format!(".{}.{}", p, self.full_name(*m)),
                None => format!(".{}", self.full_name(*m)),
            },
            PTy::Enum(e) => match &self.package {
                Some(p) => format!(".{}.{}", p, self.enum_full_name(*e)),
                None => format!(".{}", self.enum_full_name(*e)),
            },
            o => o.name().to_string(),
        }
    }

    fn render_msg(&self, m: usize, indent: usize, out: &mut String) {
        let pad = "  ".repeat(indent);
        let msg = &self.msgs[m];
        out.push_str(&format!("{}message {} {{\n", pad, msg.name));
        for (ei, e) in self.enums.iter().enumerate() {
            if e.parent == Some(m) {
                self.render_enum(ei, indent + 1, out);
            }
        }
        for (ci, c) in self.msgs.iter().enumerate() {
            if c.parent == Some(m) {
                self.render_msg(ci, indent + 1, out);
            }
        }
        let mut done_oneofs = vec![];
        for f in &msg.fields {
            if let Some(o) = f.oneof {
                if done_oneofs.contains(&o) {
                    continue;
                }
                done_oneofs.push(o);
                out.push_str(&format!("{}  oneof {} {{\n", pad, msg.oneofs[o]));
                for g in msg.fields.iter().filter(|g| g.oneof == Some(o)) {
                    if let FKind::Plain(_, ty) = &g.kind {
                        out.push_str(&format!("{}    {} {} = {};\n", pad, self.ty_text(ty), g.name, g.num));
                    }
                }
                out.push_str(&format!("{}  }}\n", pad));
                continue;
            }
            match &f.kind {
                FKind::Plain(label, ty) => {
                    let l = match label {
                        Label::Implicit => "",
                        Label::Optional => "optional ",
                        Label::Required => "required ",
                        Label::Repeated => "repeated ",
                    };
                    out.push_str(&format!("{}  {}{} {} = {};\n", pad, l, self.ty_text(ty), f.name, f.num));
                }
                FKind::Map(k, v) => out.push_str(&format!("{}  map<{}, {}> {} = {};\n", pad, self.ty_text(k), self.ty_text(v), f.name, f.num)),
            }
        }
        out.push_str(&format!("{}}}\n", pad));
    }

    fn render_enum(&self, e: usize, indent: usize, out: &mut String) {
        let pad = "  ".repeat(indent);
        out.push_str(&format!("{}enum {} {{\n", pad, self.enums[e].name));
        for (n, v) in &self.enums[e].values {
            out.push_str(&format!("{}  {} = {};\n", pad, n, v));
        }
        out.push_str(&format!("{}}}\n", pad));
    }

    pub fn render(&self) -> String {
        let mut out = String::new();
        out.push_str(if self.proto3 { "syntax = \"proto3\";\n" } else { "syntax = \"proto2\";\n" });
        if let Some(p) = &self.package {
            out.push_str(&format!("package {};\n", p));
        }
        out.push('\n');
        for (ei, e) in self.enums.iter().enumerate() {
            if e.parent.is_none() {
                self.render_enum(ei, 0, &mut out);
            }
        }
        for (mi, m) in self.msgs.iter().enumerate() {
            if m.parent.is_none() {
                self.render_msg(mi, 0, &mut out);
            }
        }
        for (name, rpcs) in &self.services {
            out.push_str(&format!("service {} {{\n", name));
            for (r, i, o) in rpcs {
                out.push_str(&format!("  rpc {}({}) returns ({});\n", r, self.ty_text(&PTy::Msg(*i)), self.ty_text(&PTy::Msg(*o))));
            }
            out.push_str("}\n");
        }
        out
    }

    /// Rust path of message `m` below the crate root
    pub fn rust_path(&self, root_mod: &str, file_stem: &str, m: usize) -> String {
        let mut parts = vec![root_mod.to_string()];
        // without a package the items sit directly in the output file's module
        let _ = file_stem;
        if let Some(p) = &self.package {
            parts.extend(p.split('.').map(|x| x.to_string()));
        }
        let mut chain = vec![];
        let mut p = self.msgs[m].parent;
        while let Some(i) = p {
            chain.push(self.msgs[i].name.to_lowercase());
            p = self.msgs[i].parent;
        }
        chain.reverse();
        parts.extend(chain);
        parts.push(self.msgs[m].name.clone());
        parts.join("::")
    }

    pub fn features(&self) -> Vec<String> {
        let mut v: Vec<String> = vec![if self.proto3 { "proto3".into() } else { "proto2".into() }];
        let mut add = |s: String| {
            if !v.contains(&s) {
                v.push(s)
            }
        };
        for m in &self.msgs {
            if m.parent.is_some() {
                add("nested-message".into());
            }
            for f in &m.fields {
                match &f.kind {
                    FKind::Plain(l, t) => {
                        let pos = if f.oneof.is_some() { "oneof" } else { match l { Label::Repeated => "repeated", _ => "singular" } };
                        add(format!("{}-{}", t.name(), pos));
                        if *l == Label::Required {
                            add("required".into());
                        }
                    }
                    FKind::Map(k, t) => {
                        add(format!("{}-map-key", k.name()));
                        add(format!("{}-map-value", t.name()));
                    }
                }
            }
        }
        v.sort();
        v
    }
}

#[cfg(test)]
mod tests {
    use super::*;

    #[test]
    fn spec_vectors() {
        // encoding guide: message Test1 { int32 a = 1; } a = 150 -> 08 96 01
        let s = PSchema {
            proto3: true,
            package: None,
            msgs: vec![PMsg {
                name: "T".into(),
                parent: None,
                fields: vec![
                    PField { num: 1, name: "a".into(), kind: FKind::Plain(Label::Implicit, PTy::Int32), oneof: None },
                    PField { num: 2, name: "b".into(), kind: FKind::Plain(Label::Implicit, PTy::String), oneof: None },
                    PField { num: 4, name: "d".into(), kind: FKind::Plain(Label::Repeated, PTy::Int32), oneof: None },
                    PField { num: 5, name: "e".into(), kind: FKind::Plain(Label::Implicit, PTy::SInt32), oneof: None },
                    PField { num: 6, name: "f".into(), kind: FKind::Plain(Label::Implicit, PTy::Fixed32), oneof: None },
                    PField { num: 7, name: "g".into(), kind: FKind::Map(PTy::String, PTy::Int32), oneof: None },
                ],
                oneofs: vec![],
            }],
            enums: vec![],
            services: vec![],
        };
        let k = PKnobs::default();
        assert_eq!(encode(&s, 0, &PMsgVal(vec![(1, PV::Int(150))]), &k), [0x08, 0x96, 0x01]);
        // string b = 2 "testing" -> 12 07 74 65 73 74 69 6e 67
        assert_eq!(encode(&s, 0, &PMsgVal(vec![(2, PV::Bytes(b"testing".to_vec()))]), &k), [0x12, 0x07, 0x74, 0x65, 0x73, 0x74, 0x69, 0x6e, 0x67]);
        // packed repeated int32 d = 4 [3, 270, 86942] -> 22 06 03 8E 02 9E A7 05
        let packed = PKnobs { packing: 1, map_entry: 0 };
        assert_eq!(encode(&s, 0, &PMsgVal(vec![(4, PV::Int(3)), (4, PV::Int(270)), (4, PV::Int(86942))]), &packed), [0x22, 0x06, 0x03, 0x8e, 0x02, 0x9e, 0xa7, 0x05]);
        // zigzag table
        assert_eq!(zz32(0), 0);
        assert_eq!(zz32(-1), 1);
        assert_eq!(zz32(1), 2);
        assert_eq!(zz32(-2), 3);
        assert_eq!(zz32(0x7fffffff), 0xfffffffe);
        assert_eq!(zz32(-0x80000000), 0xffffffff);
        assert_eq!(encode(&s, 0, &PMsgVal(vec![(5, PV::Int(-1))]), &k), [0x28, 0x01]);
        // negative int32 is ten bytes
        assert_eq!(encode(&s, 0, &PMsgVal(vec![(1, PV::Int(-1))]), &k).len(), 11);
        // fixed32 little endian
        assert_eq!(encode(&s, 0, &PMsgVal(vec![(6, PV::UInt(0x01020304))]), &k), [0x35, 0x04, 0x03, 0x02, 0x01]);
        // map entry: key = 1, value = 2
        assert_eq!(encode(&s, 0, &PMsgVal(vec![(7, PV::Entry(Box::new(PV::Bytes(b"k".to_vec())), Box::new(PV::Int(5))))]), &k), [0x3a, 0x05, 0x0a, 0x01, b'k', 0x10, 0x05]);
        // last one wins / repeated accumulate / packed+unpacked mixed
        let mut b = encode(&s, 0, &PMsgVal(vec![(1, PV::Int(1)), (4, PV::Int(9))]), &k);
        b.extend(encode(&s, 0, &PMsgVal(vec![(1, PV::Int(2)), (4, PV::Int(8)), (4, PV::Int(7))]), &packed));
        assert_eq!(canon(&s, 0, &decode(&s, 0, &b).unwrap()), PMsgVal(vec![(1, PV::Int(2)), (4, PV::Int(9)), (4, PV::Int(8)), (4, PV::Int(7))]));
    }

    #[test]
    fn self_round_trip() {
        for seed in 0..40u64 {
            let s = generate(seed, seed % 2 == 0, 4);
            let _ = s.render();
            let mut rng = Rng::new(seed);
            for m in 0..s.msgs.len() {
                for fill in 0..3u8 {
                    let x = {
                        let mut g = PGen { s: &s, rng: &mut rng, max_depth: 3, fill };
                        g.msg(m, 0)
                    };
                    let cx = canon(&s, m, &x);
                    for packing in 0..3u8 {
                        for map_entry in 0..4u8 {
                            let p = permute(&x, &mut rng);
                            let b = encode(&s, m, &p, &PKnobs { packing, map_entry });
                            let d = decode(&s, m, &b).unwrap();
                            assert_eq!(canon(&s, m, &d), cx, "seed {} msg {}", seed, m);
                        }
                    }
                }
            }
        }
    }
}


/// Rename every declared thing of a .proto schema with hostile identifiers
/// (Rust keywords, names colliding after case conversion, names the emitted code
/// mentions). Uniqueness is kept in protobuf's own terms: nested messages, nested
/// enums, their VALUES (C++ scoping), fields and oneofs of one message share a
/// scope; top-level messages, enums and enum values share the file scope.
pub fn apply_hostile_names(s: &mut PSchema, seed: u64) {
    use crate::schema::pick_name;
    use std::collections::BTreeMap;
    let mut rng = Rng::new(seed ^ 0x4057_22E);
    let mut taken: BTreeMap<Option<usize>, Vec<String>> = BTreeMap::new();
    for mi in 0..s.msgs.len() {
        let parent = s.msgs[mi].parent;
        let has_nested = s.msgs.iter().any(|c| c.parent == Some(mi)) || s.enums.iter().any(|e| e.parent == Some(mi)) || !s.msgs[mi].oneofs.is_empty();
        // a message with nested types or a oneof gets a module named after it; with case
        // conversion off a name that is already lower snake_case IS that module
        // name (recorded as one known finding through a directed document), so
        // such messages draw a name with an upper-case letter
        // message names of one scope also stay distinct after case conversion: `ID { message X }`
        // next to `id` falls back to the spellings `ID` / `id`, and `id` is the module of ID's
        // nested types (second recorded finding of this family, directed document)
        let norm = |n: &str| n.replace('_', "").to_lowercase();
        let name = loop {
            let n = pick_name(&mut rng, taken.entry(parent).or_default(), "Msg");
            if has_nested && !n.chars().any(|c| c.is_ascii_uppercase()) {
                continue;
            }
            let clash = (0..mi).any(|o| s.msgs[o].parent == parent && norm(&s.msgs[o].name) == norm(&n));
            if !clash {
                break n;
            }
        };
        s.msgs[mi].name = name;
    }
    for ei in 0..s.enums.len() {
        let parent = s.enums[ei].parent;
        // (enums too: a type that collides falls back to its spelling, which may be a keyword
        // that cannot be written as a raw identifier, or the module name of a sibling)
        let norm = |n: &str| n.replace('_', "").to_lowercase();
        let name = loop {
            let n = pick_name(&mut rng, taken.entry(parent).or_default(), "En");
            let clash = s.msgs.iter().any(|m| m.parent == parent && norm(&m.name) == norm(&n)) || (0..ei).any(|o| s.enums[o].parent == parent && norm(&s.enums[o].name) == norm(&n));
            if !clash {
                break n;
            }
        };
        s.enums[ei].name = name;
        for vi in 0..s.enums[ei].values.len() {
            s.enums[ei].values[vi].0 = pick_name(&mut rng, taken.entry(parent).or_default(), "VAL");
        }
    }
    for mi in 0..s.msgs.len() {
        let scope = taken.entry(Some(mi)).or_default();
        for oi in 0..s.msgs[mi].oneofs.len() {
            s.msgs[mi].oneofs[oi] = pick_name(&mut rng, scope, "one");
        }
        // field names must also be unique as JSON names (lower camel case): `a_b` and `aB`
        // are one name to protoc and to the pure parser pilota-build uses
        let norm = |n: &str| n.replace('_', "").to_lowercase();
        let mut json_taken: Vec<String> = vec![];
        for fi in 0..s.msgs[mi].fields.len() {
            let name = loop {
                let n = pick_name(&mut rng, scope, "fld");
                if !json_taken.contains(&norm(&n)) {
                    json_taken.push(norm(&n));
                    break n;
                }
            };
            s.msgs[mi].fields[fi].name = name;
        }
    }
    if s.package.is_some() && rng.chance(1, 2) {
        const SEGS: [&str; 8] = ["type", "mod", "async", "match", "fn", "use", "loop", "box"];
        let a = *rng.pick(&SEGS);
        let b = loop {
            let b = *rng.pick(&SEGS);
            if b != a {
                break b;
            }
        };
        s.package = Some(format!("{}.{}", a, b));
    }
}
