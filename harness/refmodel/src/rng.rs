//! Deterministic in-tree PRNG (SplitMix64 seeding + xoshiro256**). Identical
//! streams on every toolchain, including Miri.

#[derive(Clone, Debug)]
pub struct Rng {
    s: [u64; 4],
}

fn splitmix(x: &mut u64) -> u64 {
    *x = x.wrapping_add(0x9E37_79B9_7F4A_7C15);
    let mut z = *x;
    z = (z ^ (z >> 30)).wrapping_mul(0xBF58_476D_1CE4_E5B9);
    z = (z ^ (z >> 27)).wrapping_mul(0x94D0_49BB_1331_11EB);
    z ^ (z >> 31)
}

impl Rng {
    pub fn new(seed: u64) -> Self {
        let mut x = seed;
        let s = [
            splitmix(&mut x),
            splitmix(&mut x),
            splitmix(&mut x),
            splitmix(&mut x),
        ];
        Rng { s }
    }

    /// Derive an independent stream (for sharding / per-case seeds).
    pub fn fork(&mut self, salt: u64) -> Rng {
        Rng::new(self.next_u64() ^ salt.wrapping_mul(0xD6E8_FEB8_6659_FD93))
    }

    pub fn next_u64(&mut self) -> u64 {
        let r = self.s[1].wrapping_mul(5).rotate_left(7).wrapping_mul(9);
        let t = self.s[1] << 17;
        self.s[2] ^= self.s[0];
        self.s[3] ^= self.s[1];
        self.s[1] ^= self.s[2];
        self.s[0] ^= self.s[3];
        self.s[2] ^= t;
        self.s[3] = self.s[3].rotate_left(45);
        r
    }

    pub fn next_u32(&mut self) -> u32 {
        (self.next_u64() >> 32) as u32
    }

    /// uniform in 0..n (n > 0)
    pub fn below(&mut self, n: u64) -> u64 {
        debug_assert!(n > 0);
        // multiply-shift; bias is irrelevant for test generation
        ((self.next_u64() as u128 * n as u128) >> 64) as u64
    }

    pub fn usize_below(&mut self, n: usize) -> usize {
        self.below(n as u64) as usize
    }

    /// inclusive range
    pub fn range(&mut self, lo: i64, hi: i64) -> i64 {
        debug_assert!(lo <= hi);
        let span = (hi as i128 - lo as i128 + 1) as u128;
        let r = (self.next_u64() as u128 * span) >> 64;
        (lo as i128 + r as i128) as i64
    }

    pub fn chance(&mut self, num: u64, den: u64) -> bool {
        self.below(den) < num
    }

    pub fn pick<'a, T>(&mut self, xs: &'a [T]) -> &'a T {
        &xs[self.usize_below(xs.len())]
    }

    pub fn bytes(&mut self, n: usize) -> Vec<u8> {
        let mut v = Vec::with_capacity(n);
        while v.len() < n {
            let x = self.next_u64().to_le_bytes();
            let k = (n - v.len()).min(8);
            v.extend_from_slice(&x[..k]);
        }
        v
    }

    pub fn shuffle<T>(&mut self, xs: &mut [T]) {
        for i in (1..xs.len()).rev() {
            let j = self.usize_below(i + 1);
            xs.swap(i, j);
        }
    }
}

/// FNV-1a 64 — used for structural hashes of cases (distinct counting).
pub fn fnv1a(data: &[u8]) -> u64 {
    let mut h: u64 = 0xcbf29ce484222325;
    for b in data {
        h ^= *b as u64;
        h = h.wrapping_mul(0x100000001b3);
    }
    h
}

pub fn hex(data: &[u8]) -> String {
    let mut s = String::with_capacity(data.len() * 2);
    for b in data {
        s.push_str(&format!("{:02x}", b));
    }
    s
}

pub fn unhex(s: &str) -> Vec<u8> {
    let s = s.as_bytes();
    let mut v = Vec::with_capacity(s.len() / 2);
    let val = |c: u8| -> u8 {
        match c {
            b'0'..=b'9' => c - b'0',
            b'a'..=b'f' => c - b'a' + 10,
            b'A'..=b'F' => c - b'A' + 10,
            _ => 0,
        }
    };
    let mut i = 0;
    while i + 1 < s.len() {
        v.push(val(s[i]) << 4 | val(s[i + 1]));
        i += 2;
    }
    v
}
