//! Independent reference codecs for the Thrift binary protocol (big-endian as
//! specified by Apache, and pilota's little-endian twin) and the Thrift compact
//! protocol, written from the protocol specification texts
//! (thrift-binary-protocol.md, thrift-compact-protocol.md). No pilota code.
//!
//! Encoders return, with the bytes, a *layout map* (offset + kind of every
//! header item) that the fault operators use.

use crate::tval::{TT, TVal};

#[derive(Copy, Clone, Debug, PartialEq, Eq)]
pub enum Proto {
    Binary,
    BinaryLe,
    Compact,
}

impl Proto {
    pub fn name(self) -> &'static str {
        match self {
            Proto::Binary => "binary",
            Proto::BinaryLe => "binary_le",
            Proto::Compact => "compact",
        }
    }
}

#[derive(Copy, Clone, Debug, PartialEq, Eq, Hash)]
pub enum LK {
    /// field type byte (binary) or type nibble byte (compact short/long header)
    FieldType,
    /// field id (2 bytes binary; zigzag varint compact long form)
    FieldId,
    /// string/binary length prefix
    StrLen,
    /// list/set/map element count
    Count,
    /// list/set element type byte / compact list header byte
    ElemType,
    /// map key+value type bytes (binary: two items; compact: one byte)
    MapTypes,
    /// stop byte
    Stop,
    /// scalar payload
    Value,
}

#[derive(Copy, Clone, Debug)]
pub struct LItem {
    pub off: usize,
    pub len: usize,
    pub kind: LK,
}

#[derive(Clone, Debug, Default)]
pub struct Layout {
    pub items: Vec<LItem>,
}

impl Layout {
    fn add(&mut self, off: usize, len: usize, kind: LK) {
        self.items.push(LItem { off, len, kind });
    }
}

/// Knobs selecting among spec-legal alternative encodings (compact) and
/// reader-tolerated forms (binary bool byte).
#[derive(Clone, Debug, Default)]
pub struct Knobs {
    /// compact: always use the long-form field header (type byte + zigzag id)
    pub long_field_headers: bool,
    /// compact: use the `1111tttt` + varint form for list/set sizes < 15
    pub long_list_headers: bool,
    /// binary: byte written for `true` (any non-zero is legal on read); 0 means 1
    pub true_byte: u8,
}

// ---------------------------------------------------------------------------
// varints

pub fn put_uvarint(out: &mut Vec<u8>, mut x: u64) {
    loop {
        let b = (x & 0x7f) as u8;
        x >>= 7;
        if x == 0 {
            out.push(b);
            return;
        }
        out.push(b | 0x80);
    }
}

pub fn uvarint_len(mut x: u64) -> usize {
    let mut n = 1;
    while x >= 0x80 {
        x >>= 7;
        n += 1;
    }
    n
}

pub fn zigzag32(n: i32) -> u32 {
    ((n << 1) ^ (n >> 31)) as u32
}
pub fn zigzag64(n: i64) -> u64 {
    ((n << 1) ^ (n >> 63)) as u64
}
pub fn unzigzag64(z: u64) -> i64 {
    ((z >> 1) as i64) ^ -((z & 1) as i64)
}

#[derive(Debug, Clone, PartialEq, Eq)]
pub enum DecErr {
    Eof,
    BadType(u8),
    BadVarint,
    NegativeLen,
    Depth,
    BadBool(u8),
    Trailing,
    BadHeader,
}

pub fn get_uvarint(b: &[u8], pos: &mut usize, max_bytes: usize) -> Result<u64, DecErr> {
    let mut x: u64 = 0;
    let mut shift = 0u32;
    for i in 0..max_bytes {
        let byte = *b.get(*pos).ok_or(DecErr::Eof)?;
        *pos += 1;
        if shift < 64 {
            x |= ((byte & 0x7f) as u64) << shift;
        }
        shift += 7;
        if byte & 0x80 == 0 {
            let _ = i;
            return Ok(x);
        }
    }
    Err(DecErr::BadVarint)
}

// ---------------------------------------------------------------------------
// encoder

pub struct Enc<'k> {
    pub proto: Proto,
    pub out: Vec<u8>,
    pub layout: Layout,
    pub knobs: &'k Knobs,
}

static DEFAULT_KNOBS: Knobs = Knobs {
    long_field_headers: false,
    long_list_headers: false,
    true_byte: 0,
};

pub fn encode(proto: Proto, v: &TVal) -> Vec<u8> {
    let mut e = Enc::new(proto, &DEFAULT_KNOBS);
    e.value(v);
    e.out
}

pub fn encode_with(proto: Proto, v: &TVal, knobs: &Knobs) -> (Vec<u8>, Layout) {
    let mut e = Enc::new(proto, knobs);
    e.value(v);
    (e.out, e.layout)
}

impl<'k> Enc<'k> {
    pub fn new(proto: Proto, knobs: &'k Knobs) -> Self {
        Enc {
            proto,
            out: Vec::new(),
            layout: Layout::default(),
            knobs,
        }
    }

    fn fixed(&mut self, be: &[u8], kind: LK) {
        let off = self.out.len();
        if self.proto == Proto::BinaryLe {
            self.out.extend(be.iter().rev());
        } else {
            self.out.extend_from_slice(be);
        }
        self.layout.add(off, be.len(), kind);
    }

    fn uvar(&mut self, x: u64, kind: LK) {
        let off = self.out.len();
        put_uvarint(&mut self.out, x);
        let len = self.out.len() - off;
        self.layout.add(off, len, kind);
    }

    fn byte(&mut self, b: u8, kind: LK) {
        let off = self.out.len();
        self.out.push(b);
        self.layout.add(off, 1, kind);
    }

    /// a value outside a field (top level, list element, map key/value)
    pub fn value(&mut self, v: &TVal) {
        match self.proto {
            Proto::Binary | Proto::BinaryLe => self.bin_value(v),
            Proto::Compact => self.cmp_value(v),
        }
    }

    fn bin_value(&mut self, v: &TVal) {
        match v {
            TVal::Bool(b) => {
                let t = if self.knobs.true_byte == 0 {
                    1
                } else {
                    self.knobs.true_byte
                };
                self.byte(if *b { t } else { 0 }, LK::Value)
            }
            TVal::I8(x) => self.byte(*x as u8, LK::Value),
            TVal::I16(x) => self.fixed(&x.to_be_bytes(), LK::Value),
            TVal::I32(x) => self.fixed(&x.to_be_bytes(), LK::Value),
            TVal::I64(x) => self.fixed(&x.to_be_bytes(), LK::Value),
            TVal::Double(x) => self.fixed(&x.to_be_bytes(), LK::Value),
            TVal::Binary(b) => {
                self.fixed(&(b.len() as i32).to_be_bytes(), LK::StrLen);
                self.out.extend_from_slice(b);
            }
            TVal::Uuid(u) => {
                let off = self.out.len();
                self.out.extend_from_slice(u);
                self.layout.add(off, 16, LK::Value);
            }
            TVal::Struct(fs) => {
                for (id, fv) in fs {
                    self.byte(fv.tt().binary_code(), LK::FieldType);
                    self.fixed(&id.to_be_bytes(), LK::FieldId);
                    self.bin_value(fv);
                }
                self.byte(0, LK::Stop);
            }
            TVal::List(t, xs) | TVal::Set(t, xs) => {
                self.byte(t.binary_code(), LK::ElemType);
                self.fixed(&(xs.len() as i32).to_be_bytes(), LK::Count);
                for x in xs {
                    self.bin_value(x);
                }
            }
            TVal::Map(k, vt, es) => {
                self.byte(k.binary_code(), LK::MapTypes);
                self.byte(vt.binary_code(), LK::MapTypes);
                self.fixed(&(es.len() as i32).to_be_bytes(), LK::Count);
                for (a, b) in es {
                    self.bin_value(a);
                    self.bin_value(b);
                }
            }
        }
    }

    fn cmp_value(&mut self, v: &TVal) {
        match v {
            // element / top-level bool: one byte, 1 = true, 2 = false
            TVal::Bool(b) => self.byte(if *b { 1 } else { 2 }, LK::Value),
            TVal::I8(x) => self.byte(*x as u8, LK::Value),
            TVal::I16(x) => self.uvar(zigzag32(*x as i32) as u64, LK::Value),
            TVal::I32(x) => self.uvar(zigzag32(*x) as u64, LK::Value),
            TVal::I64(x) => self.uvar(zigzag64(*x), LK::Value),
            TVal::Double(x) => {
                // compact spec: doubles are little-endian
                let off = self.out.len();
                self.out.extend_from_slice(&x.to_le_bytes());
                self.layout.add(off, 8, LK::Value);
            }
            TVal::Binary(b) => {
                self.uvar(b.len() as u64, LK::StrLen);
                self.out.extend_from_slice(b);
            }
            TVal::Uuid(u) => {
                let off = self.out.len();
                self.out.extend_from_slice(u);
                self.layout.add(off, 16, LK::Value);
            }
            TVal::Struct(fs) => {
                let mut last: i16 = 0;
                for (id, fv) in fs {
                    let code = match fv {
                        TVal::Bool(true) => 1,
                        TVal::Bool(false) => 2,
                        other => other.tt().compact_code(),
                    };
                    let delta = (*id as i32) - (last as i32);
                    if !self.knobs.long_field_headers && (1..=15).contains(&delta) {
                        self.byte(((delta as u8) << 4) | code, LK::FieldType);
                    } else {
                        self.byte(code, LK::FieldType);
                        self.uvar(zigzag32(*id as i32) as u64, LK::FieldId);
                    }
                    last = *id;
                    if !matches!(fv, TVal::Bool(_)) {
                        self.cmp_value(fv);
                    }
                }
                self.byte(0, LK::Stop);
            }
            TVal::List(t, xs) | TVal::Set(t, xs) => {
                if xs.len() < 15 && !self.knobs.long_list_headers {
                    self.byte(((xs.len() as u8) << 4) | t.compact_code(), LK::ElemType);
                } else {
                    self.byte(0xF0 | t.compact_code(), LK::ElemType);
                    self.uvar(xs.len() as u64, LK::Count);
                }
                for x in xs {
                    self.cmp_value(x);
                }
            }
            TVal::Map(k, vt, es) => {
                if es.is_empty() {
                    self.byte(0, LK::Count);
                } else {
                    self.uvar(es.len() as u64, LK::Count);
                    self.byte((k.compact_code() << 4) | vt.compact_code(), LK::MapTypes);
                    for (a, b) in es {
                        self.cmp_value(a);
                        self.cmp_value(b);
                    }
                }
            }
        }
    }
}

// ---------------------------------------------------------------------------
// decoder

pub struct Dec<'a> {
    pub proto: Proto,
    pub b: &'a [u8],
    pub pos: usize,
    pub max_depth: usize,
}

pub fn decode(proto: Proto, tt: TT, bytes: &[u8]) -> Result<(TVal, usize), DecErr> {
    let mut d = Dec {
        proto,
        b: bytes,
        pos: 0,
        max_depth: 200,
    };
    let v = d.value(tt, 0)?;
    Ok((v, d.pos))
}

/// decode and require that the input is consumed exactly
pub fn decode_exact(proto: Proto, tt: TT, bytes: &[u8]) -> Result<TVal, DecErr> {
    let (v, n) = decode(proto, tt, bytes)?;
    if n != bytes.len() {
        return Err(DecErr::Trailing);
    }
    Ok(v)
}

impl<'a> Dec<'a> {
    fn take(&mut self, n: usize) -> Result<&'a [u8], DecErr> {
        if self.b.len() - self.pos < n {
            return Err(DecErr::Eof);
        }
        let s = &self.b[self.pos..self.pos + n];
        self.pos += n;
        Ok(s)
    }
    fn u8(&mut self) -> Result<u8, DecErr> {
        Ok(self.take(1)?[0])
    }
    fn fixed<const N: usize>(&mut self) -> Result<[u8; N], DecErr> {
        let s = self.take(N)?;
        let mut a = [0u8; N];
        a.copy_from_slice(s);
        if self.proto == Proto::BinaryLe {
            a.reverse();
        }
        Ok(a)
    }

    pub fn value(&mut self, tt: TT, depth: usize) -> Result<TVal, DecErr> {
        if depth > self.max_depth {
            return Err(DecErr::Depth);
        }
        match self.proto {
            Proto::Binary | Proto::BinaryLe => self.bin_value(tt, depth),
            Proto::Compact => self.cmp_value(tt, depth),
        }
    }

    fn bin_len(&mut self) -> Result<usize, DecErr> {
        let n = i32::from_be_bytes(self.fixed::<4>()?);
        if n < 0 {
            return Err(DecErr::NegativeLen);
        }
        Ok(n as usize)
    }

    fn bin_tt(&mut self) -> Result<TT, DecErr> {
        let c = self.u8()?;
        TT::from_binary_code(c).ok_or(DecErr::BadType(c))
    }

    fn bin_value(&mut self, tt: TT, depth: usize) -> Result<TVal, DecErr> {
        Ok(match tt {
            TT::Bool => TVal::Bool(self.u8()? != 0),
            TT::I8 => TVal::I8(self.u8()? as i8),
            TT::I16 => TVal::I16(i16::from_be_bytes(self.fixed::<2>()?)),
            TT::I32 => TVal::I32(i32::from_be_bytes(self.fixed::<4>()?)),
            TT::I64 => TVal::I64(i64::from_be_bytes(self.fixed::<8>()?)),
            TT::Double => TVal::Double(u64::from_be_bytes(self.fixed::<8>()?)),
            TT::Binary => {
                let n = self.bin_len()?;
                TVal::Binary(self.take(n)?.to_vec())
            }
            TT::Uuid => {
                let s = self.take(16)?;
                let mut u = [0u8; 16];
                u.copy_from_slice(s);
                TVal::Uuid(u)
            }
            TT::Struct => {
                let mut fs = Vec::new();
                loop {
                    let c = self.u8()?;
                    if c == 0 {
                        break;
                    }
                    let ft = TT::from_binary_code(c).ok_or(DecErr::BadType(c))?;
                    let id = i16::from_be_bytes(self.fixed::<2>()?);
                    fs.push((id, self.value(ft, depth + 1)?));
                }
                TVal::Struct(fs)
            }
            TT::List | TT::Set => {
                let et = self.bin_tt()?;
                let n = self.bin_len()?;
                let mut xs = Vec::new();
                for _ in 0..n {
                    xs.push(self.value(et, depth + 1)?);
                }
                if tt == TT::List {
                    TVal::List(et, xs)
                } else {
                    TVal::Set(et, xs)
                }
            }
            TT::Map => {
                let kt = self.bin_tt()?;
                let vt = self.bin_tt()?;
                let n = self.bin_len()?;
                let mut es = Vec::new();
                for _ in 0..n {
                    let k = self.value(kt, depth + 1)?;
                    let v = self.value(vt, depth + 1)?;
                    es.push((k, v));
                }
                TVal::Map(kt, vt, es)
            }
        })
    }

    fn uvar(&mut self, max_bytes: usize) -> Result<u64, DecErr> {
        get_uvarint(self.b, &mut self.pos, max_bytes)
    }

    fn cmp_size(&mut self) -> Result<usize, DecErr> {
        let n = self.uvar(5)?;
        if n > i32::MAX as u64 {
            return Err(DecErr::NegativeLen);
        }
        Ok(n as usize)
    }

    fn cmp_value(&mut self, tt: TT, depth: usize) -> Result<TVal, DecErr> {
        Ok(match tt {
            TT::Bool => {
                // liberal: 1 = true, 2 = false, 0 = false (older writers)
                match self.u8()? {
                    1 => TVal::Bool(true),
                    2 | 0 => TVal::Bool(false),
                    x => return Err(DecErr::BadBool(x)),
                }
            }
            TT::I8 => TVal::I8(self.u8()? as i8),
            TT::I16 => TVal::I16(unzigzag64(self.uvar(5)?) as i16),
            TT::I32 => TVal::I32(unzigzag64(self.uvar(5)?) as i32),
            TT::I64 => TVal::I64(unzigzag64(self.uvar(10)?)),
            TT::Double => {
                let s = self.take(8)?;
                let mut a = [0u8; 8];
                a.copy_from_slice(s);
                TVal::Double(u64::from_le_bytes(a))
            }
            TT::Binary => {
                let n = self.cmp_size()?;
                TVal::Binary(self.take(n)?.to_vec())
            }
            TT::Uuid => {
                let s = self.take(16)?;
                let mut u = [0u8; 16];
                u.copy_from_slice(s);
                TVal::Uuid(u)
            }
            TT::Struct => {
                let mut fs = Vec::new();
                let mut last: i16 = 0;
                loop {
                    let h = self.u8()?;
                    if h == 0 {
                        break;
                    }
                    let code = h & 0x0f;
                    let delta = h >> 4;
                    let ft = TT::from_compact_code(code).ok_or(DecErr::BadType(code))?;
                    let id = if delta == 0 {
                        unzigzag64(self.uvar(5)?) as i16
                    } else {
                        last.wrapping_add(delta as i16)
                    };
                    last = id;
                    let v = if ft == TT::Bool {
                        TVal::Bool(code == 1)
                    } else {
                        self.value(ft, depth + 1)?
                    };
                    fs.push((id, v));
                }
                TVal::Struct(fs)
            }
            TT::List | TT::Set => {
                let h = self.u8()?;
                let code = h & 0x0f;
                let et = TT::from_compact_code(code).ok_or(DecErr::BadType(code))?;
                let n = if h >> 4 == 15 {
                    self.cmp_size()?
                } else {
                    (h >> 4) as usize
                };
                let mut xs = Vec::new();
                for _ in 0..n {
                    xs.push(self.value(et, depth + 1)?);
                }
                if tt == TT::List {
                    TVal::List(et, xs)
                } else {
                    TVal::Set(et, xs)
                }
            }
            TT::Map => {
                let n = self.cmp_size()?;
                if n == 0 {
                    TVal::Map(TT::Bool, TT::Bool, vec![])
                } else {
                    let h = self.u8()?;
                    let kt = TT::from_compact_code(h >> 4).ok_or(DecErr::BadType(h >> 4))?;
                    let vt = TT::from_compact_code(h & 0x0f).ok_or(DecErr::BadType(h & 0x0f))?;
                    let mut es = Vec::new();
                    for _ in 0..n {
                        let k = self.value(kt, depth + 1)?;
                        let v = self.value(vt, depth + 1)?;
                        es.push((k, v));
                    }
                    TVal::Map(kt, vt, es)
                }
            }
        })
    }
}

// ---------------------------------------------------------------------------
// message envelope

#[derive(Clone, Debug, PartialEq, Eq)]
pub struct Envelope {
    pub name: Vec<u8>,
    pub mtype: u8,
    pub seq: i32,
}

pub fn encode_envelope(proto: Proto, e: &Envelope) -> Vec<u8> {
    let mut out = Vec::new();
    match proto {
        Proto::Binary => {
            // strict: 0x8001 | 0x00 | type, name, seqid
            out.extend_from_slice(&(0x8001_0000u32 | e.mtype as u32).to_be_bytes());
            out.extend_from_slice(&(e.name.len() as i32).to_be_bytes());
            out.extend_from_slice(&e.name);
            out.extend_from_slice(&e.seq.to_be_bytes());
        }
        Proto::BinaryLe => {
            out.extend_from_slice(&(0x8888_0000u32 | e.mtype as u32).to_le_bytes());
            out.extend_from_slice(&(e.name.len() as i32).to_le_bytes());
            out.extend_from_slice(&e.name);
            out.extend_from_slice(&e.seq.to_le_bytes());
        }
        Proto::Compact => {
            out.push(0x82);
            out.push((e.mtype << 5) | 0x01);
            put_uvarint(&mut out, e.seq as u32 as u64);
            put_uvarint(&mut out, e.name.len() as u64);
            out.extend_from_slice(&e.name);
        }
    }
    out
}

pub fn decode_envelope(proto: Proto, b: &[u8]) -> Result<(Envelope, usize), DecErr> {
    let mut d = Dec {
        proto,
        b,
        pos: 0,
        max_depth: 0,
    };
    match proto {
        Proto::Binary | Proto::BinaryLe => {
            let w = u32::from_be_bytes(d.fixed::<4>()?);
            let want = if proto == Proto::Binary {
                0x8001_0000
            } else {
                0x8888_0000
            };
            if w & 0xffff_0000 != want {
                return Err(DecErr::BadHeader);
            }
            let mtype = (w & 0xff) as u8;
            let n = d.bin_len()?;
            let name = d.take(n)?.to_vec();
            let seq = i32::from_be_bytes(d.fixed::<4>()?);
            Ok((Envelope { name, mtype, seq }, d.pos))
        }
        Proto::Compact => {
            if d.u8()? != 0x82 {
                return Err(DecErr::BadHeader);
            }
            let vt = d.u8()?;
            if vt & 0x1f != 1 {
                return Err(DecErr::BadHeader);
            }
            let mtype = vt >> 5;
            let seq = d.uvar(5)? as u32 as i32;
            let n = d.cmp_size()?;
            let name = d.take(n)?.to_vec();
            Ok((Envelope { name, mtype, seq }, d.pos))
        }
    }
}

#[cfg(test)]
mod tests {
    use super::*;

    // Byte vectors hand-computed from the specification texts.
    #[test]
    fn spec_vectors_compact() {
        // zigzag table from the compact spec
        assert_eq!(zigzag32(0), 0);
        assert_eq!(zigzag32(-1), 1);
        assert_eq!(zigzag32(1), 2);
        assert_eq!(zigzag32(-2), 3);
        assert_eq!(zigzag32(i32::MAX), 0xffff_fffe);
        assert_eq!(zigzag32(i32::MIN), 0xffff_ffff);
        // varint: 300 -> ac 02 ; 50399 -> DF 89 03 (spec example)
        let mut o = vec![];
        put_uvarint(&mut o, 300);
        assert_eq!(o, [0xac, 0x02]);
        let mut o = vec![];
        put_uvarint(&mut o, 50399);
        assert_eq!(o, [0xdf, 0x89, 0x03]);
        // struct {1: i32 = 1} : short header delta=1 type=5 -> 0x15, zigzag(1)=2, stop
        let v = TVal::Struct(vec![(1, TVal::I32(1))]);
        assert_eq!(encode(Proto::Compact, &v), [0x15, 0x02, 0x00]);
        // bool field true id 1 -> 0x11 ; false id 2 -> 0x12
        let v = TVal::Struct(vec![(1, TVal::Bool(true)), (2, TVal::Bool(false))]);
        assert_eq!(encode(Proto::Compact, &v), [0x11, 0x12, 0x00]);
        // long-form header: id 16 after 0 -> type byte 0x05 then zigzag(16)=32
        let v = TVal::Struct(vec![(16, TVal::I32(0))]);
        assert_eq!(encode(Proto::Compact, &v), [0x05, 0x20, 0x00, 0x00]);
        // delta 15 is short form per spec (dddd = 15)
        let v = TVal::Struct(vec![(15, TVal::I8(7))]);
        assert_eq!(encode(Proto::Compact, &v), [0xf3, 0x07, 0x00]);
        // double 1.5 little endian
        assert_eq!(
            encode(Proto::Compact, &TVal::Double(1.5f64.to_bits())),
            [0, 0, 0, 0, 0, 0, 0xf8, 0x3f]
        );
        // list<i32> of 2: header 0x25
        let v = TVal::List(TT::I32, vec![TVal::I32(1), TVal::I32(-1)]);
        assert_eq!(encode(Proto::Compact, &v), [0x25, 0x02, 0x01]);
        // list of 15 i8: 0xF3 0x0F
        let v = TVal::List(TT::I8, vec![TVal::I8(0); 15]);
        assert_eq!(&encode(Proto::Compact, &v)[..2], [0xf3, 0x0f]);
        // empty map: single 0 byte; map<i8,i8>{1:2}: 01 33 01 02
        assert_eq!(encode(Proto::Compact, &TVal::Map(TT::I8, TT::I8, vec![])), [0]);
        let v = TVal::Map(TT::I8, TT::I8, vec![(TVal::I8(1), TVal::I8(2))]);
        assert_eq!(encode(Proto::Compact, &v), [0x01, 0x33, 0x01, 0x02]);
        // binary "ab": 02 61 62
        assert_eq!(encode(Proto::Compact, &TVal::Binary(b"ab".to_vec())), [2, 0x61, 0x62]);
        // envelope: 82 21 (call, version 1) seq=1 name "a"
        let e = Envelope { name: b"a".to_vec(), mtype: 1, seq: 1 };
        assert_eq!(encode_envelope(Proto::Compact, &e), [0x82, 0x21, 0x01, 0x01, 0x61]);
    }

    #[test]
    fn spec_vectors_binary() {
        let v = TVal::Struct(vec![(1, TVal::I32(1)), (2, TVal::Bool(true))]);
        assert_eq!(
            encode(Proto::Binary, &v),
            [8, 0, 1, 0, 0, 0, 1, 2, 0, 2, 1, 0]
        );
        let v = TVal::List(TT::I16, vec![TVal::I16(258)]);
        assert_eq!(encode(Proto::Binary, &v), [6, 0, 0, 0, 1, 1, 2]);
        let v = TVal::Map(TT::I8, TT::Binary, vec![(TVal::I8(1), TVal::Binary(b"x".to_vec()))]);
        assert_eq!(
            encode(Proto::Binary, &v),
            [3, 11, 0, 0, 0, 1, 1, 0, 0, 0, 1, b'x']
        );
        assert_eq!(
            encode(Proto::Binary, &TVal::Double(1.5f64.to_bits())),
            [0x3f, 0xf8, 0, 0, 0, 0, 0, 0]
        );
        let e = Envelope { name: b"ab".to_vec(), mtype: 2, seq: -1 };
        assert_eq!(
            encode_envelope(Proto::Binary, &e),
            [0x80, 0x01, 0x00, 0x02, 0, 0, 0, 2, b'a', b'b', 0xff, 0xff, 0xff, 0xff]
        );
        assert_eq!(
            encode(Proto::Binary, &TVal::Uuid(*b"0123456789abcdef")),
            *b"0123456789abcdef"
        );
    }

    #[test]
    fn self_round_trip() {
        use crate::rng::Rng;
        use crate::tval::{Gen, GenCfg, directed_values};
        let mut rng = Rng::new(1);
        let mut cases: Vec<TVal> = directed_values().into_iter().map(|x| x.1).collect();
        let mut g = Gen::new(&mut rng, GenCfg::default());
        for _ in 0..2000 {
            cases.push(g.gen_top());
        }
        for v in &cases {
            for p in [Proto::Binary, Proto::BinaryLe, Proto::Compact] {
                for k in [
                    Knobs::default(),
                    Knobs { long_field_headers: true, long_list_headers: true, true_byte: 0x80 },
                ] {
                    let (b, _) = encode_with(p, v, &k);
                    let d = decode_exact(p, v.tt(), &b).unwrap();
                    assert_eq!(d.norm_empty_maps(), v.norm_empty_maps(), "{:?}", p);
                }
            }
        }
    }
}
