//! Reference models and generators. This crate must never depend on pilota.
pub mod faults;
pub mod pb;
pub mod rng;
pub mod schema;
pub mod tcodec;
pub mod tval;
