//! The harness's own model of what a Thrift IDL corpus *means*: declared types,
//! field ids, requiredness, defaults evaluated to values; plus the Thrift
//! document generator `G_thrift` (plain naming profile), the IDL text renderer,
//! schema-directed value generation and the semantic functions the oracles use
//! (`expected_roundtrip`, `zero_value`, `project`). No pilota code.

use crate::rng::Rng;
use crate::tval::{TT, TVal, interesting_f64_bits, interesting_i64};

#[derive(Clone, Debug, PartialEq)]
pub enum Ty {
    Bool,
    I8,
    I16,
    I32,
    I64,
    Double,
    Str,
    Bin,
    Uuid,
    List(Box<Ty>),
    Set(Box<Ty>),
    Map(Box<Ty>, Box<Ty>),
    /// index into `Schema::defs`
    Ref(usize),
}

#[derive(Copy, Clone, Debug, PartialEq, Eq)]
pub enum Req {
    Default,
    Required,
    Optional,
}

#[derive(Clone, Debug, PartialEq)]
pub enum Lit {
    Int(i64),
    Dbl(String),
    Str(String),
    Bool(bool),
    /// enum member by qualified name: (def index, member index)
    EnumMember(usize, usize),
    /// constant by reference
    Const(usize),
    List(Vec<Lit>),
    Map(Vec<(Lit, Lit)>),
    /// `[]` used as an empty map
    EmptyBrackets,
    /// struct literal keyed by field name
    Struct(Vec<(String, Lit)>),
}

#[derive(Clone, Debug)]
pub struct Field {
    pub id: i16,
    pub name: String,
    pub req: Req,
    pub ty: Ty,
    pub default: Option<Lit>,
    pub annots: Vec<(String, String)>,
}

#[derive(Clone, Debug, PartialEq)]
pub enum Kind {
    Struct,
    Exception,
    Union,
    Enum(Vec<(String, i32)>),
    Typedef(Ty),
}

#[derive(Clone, Debug)]
pub struct Def {
    pub file: usize,
    pub name: String,
    pub kind: Kind,
    pub fields: Vec<Field>,
    pub annots: Vec<(String, String)>,
}

#[derive(Clone, Debug)]
pub struct ConstDef {
    pub file: usize,
    pub name: String,
    pub ty: Ty,
    pub val: Lit,
}

#[derive(Clone, Debug)]
pub struct Method {
    pub name: String,
    pub oneway: bool,
    /// None = void
    pub ret: Option<Ty>,
    pub args: Vec<Field>,
    pub throws: Vec<Field>,
}

#[derive(Clone, Debug)]
pub struct Service {
    pub file: usize,
    pub name: String,
    pub methods: Vec<Method>,
}

#[derive(Clone, Debug)]
pub struct FileInfo {
    pub stem: String,
    pub namespace: Option<Vec<String>>,
    pub includes: Vec<usize>,
}

#[derive(Clone, Debug, Default)]
pub struct Schema {
    pub files: Vec<FileInfo>,
    pub defs: Vec<Def>,
    pub consts: Vec<ConstDef>,
    pub services: Vec<Service>,
}

/// A type the harness drives through `Message`: a declared def or a type
/// synthesised for a service method.
#[derive(Clone, Debug)]
pub struct Target {
    /// Rust path below the crate root, e.g. `pgen::c0::S0`
    pub rust_path: String,
    /// display name
    pub name: String,
    pub shape: Shape,
}

#[derive(Clone, Debug)]
pub enum Shape {
    /// declared struct / exception / union / enum / typedef
    Def(usize),
    /// `*ArgsSend` / `*ArgsRecv`: struct of the method arguments
    Args(usize, usize),
    /// `*ResultSend` / `*ResultRecv`: union {0: return, throws...}; empty = success for void
    Result(usize, usize),
    /// `*Exception`: union of the throws
    Exception(usize, usize),
}

impl Schema {
    pub fn mod_path(&self, file: usize) -> Vec<String> {
        match &self.files[file].namespace {
            Some(ns) => ns.clone(),
            None => vec![self.files[file].stem.clone()],
        }
    }

    pub fn qual(&self, from_file: usize, def: usize) -> String {
        let d = &self.defs[def];
        if d.file == from_file {
            d.name.clone()
        } else {
            format!("{}.{}", self.files[d.file].stem, d.name)
        }
    }

    /// wire type of a declared type
    pub fn tt(&self, ty: &Ty) -> TT {
        match ty {
            Ty::Bool => TT::Bool,
            Ty::I8 => TT::I8,
            Ty::I16 => TT::I16,
            Ty::I32 => TT::I32,
            Ty::I64 => TT::I64,
            Ty::Double => TT::Double,
            Ty::Str | Ty::Bin => TT::Binary,
            Ty::Uuid => TT::Uuid,
            Ty::List(_) => TT::List,
            Ty::Set(_) => TT::Set,
            Ty::Map(..) => TT::Map,
            Ty::Ref(i) => match &self.defs[*i].kind {
                Kind::Enum(_) => TT::I32,
                Kind::Typedef(t) => self.tt(t),
                _ => TT::Struct,
            },
        }
    }

    /// strip typedefs
    pub fn resolve<'a>(&'a self, ty: &'a Ty) -> &'a Ty {
        match ty {
            Ty::Ref(i) => match &self.defs[*i].kind {
                Kind::Typedef(t) => self.resolve(t),
                _ => ty,
            },
            _ => ty,
        }
    }

    // ------------------------------------------------------------------
    // IDL text

    pub fn ty_text(&self, file: usize, ty: &Ty) -> String {
        match ty {
            Ty::Bool => "bool".into(),
            Ty::I8 => "i8".into(),
            Ty::I16 => "i16".into(),
            Ty::I32 => "i32".into(),
            Ty::I64 => "i64".into(),
            Ty::Double => "double".into(),
            Ty::Str => "string".into(),
            Ty::Bin => "binary".into(),
            Ty::Uuid => "uuid".into(),
            Ty::List(t) => format!("list<{}>", self.ty_text(file, t)),
            Ty::Set(t) => format!("set<{}>", self.ty_text(file, t)),
            Ty::Map(k, v) => format!("map<{}, {}>", self.ty_text(file, k), self.ty_text(file, v)),
            Ty::Ref(i) => self.qual(file, *i),
        }
    }

    pub fn lit_text(&self, file: usize, l: &Lit) -> String {
        match l {
            // one value in four is spelled in hexadecimal (either sign)
            Lit::Int(i) if i.rem_euclid(4) == 1 && *i != i64::MIN => {
                if *i < 0 { format!("-0x{:x}", -*i) } else { format!("0x{:X}", i) }
            }
            Lit::Int(i) => format!("{}", i),
            Lit::Dbl(s) => s.clone(),
            Lit::Str(s) => format!("\"{}\"", s),
            Lit::Bool(b) => format!("{}", b),
            Lit::EnumMember(d, m) => {
                let def = &self.defs[*d];
                if let Kind::Enum(ms) = &def.kind {
                    format!("{}.{}", self.qual(file, *d), ms[*m].0)
                } else {
                    "0".into()
                }
            }
            Lit::Const(c) => {
                let cd = &self.consts[*c];
                if cd.file == file {
                    cd.name.clone()
                } else {
                    format!("{}.{}", self.files[cd.file].stem, cd.name)
                }
            }
            Lit::List(xs) => format!("[{}]", xs.iter().map(|x| self.lit_text(file, x)).collect::<Vec<_>>().join(", ")),
            Lit::Map(es) => format!(
                "{{{}}}",
                es.iter().map(|(k, v)| format!("{}: {}", self.lit_text(file, k), self.lit_text(file, v))).collect::<Vec<_>>().join(", ")
            ),
            Lit::EmptyBrackets => "[]".into(),
            Lit::Struct(fs) => format!(
                "{{{}}}",
                fs.iter().map(|(k, v)| format!("\"{}\": {}", k, self.lit_text(file, v))).collect::<Vec<_>>().join(", ")
            ),
        }
    }

    fn annots_text(a: &[(String, String)]) -> String {
        if a.is_empty() {
            String::new()
        } else {
            format!("({})", a.iter().map(|(k, v)| format!("{} = \"{}\"", k, v)).collect::<Vec<_>>().join(", "))
        }
    }

    fn field_text(&self, file: usize, f: &Field, in_union: bool) -> String {
        let req = match (f.req, in_union) {
            (_, true) => "",
            (Req::Required, _) => "required ",
            (Req::Optional, _) => "optional ",
            (Req::Default, _) => "",
        };
        let def = match &f.default {
            Some(l) => format!(" = {}", self.lit_text(file, l)),
            None => String::new(),
        };
        format!("  {}: {}{} {}{}{},\n", f.id, req, self.ty_text(file, &f.ty), f.name, def, Self::annots_text(&f.annots))
    }

    pub fn render_file(&self, file: usize) -> String {
        let fi = &self.files[file];
        let mut s = String::new();
        for inc in &fi.includes {
            s.push_str(&format!("include \"{}.thrift\"\n", self.files[*inc].stem));
        }
        if let Some(ns) = &fi.namespace {
            s.push_str(&format!("namespace rs {}\n", ns.join(".")));
        }
        s.push('\n');
        // enums and typedefs and consts first is not required by thrift, but
        // keep declaration order = index order
        for (i, d) in self.defs.iter().enumerate() {
            if d.file != file {
                continue;
            }
            let _ = i;
            match &d.kind {
                Kind::Enum(ms) => {
                    s.push_str(&format!("enum {} {{\n", d.name));
                    for (n, v) in ms {
                        s.push_str(&format!("  {} = {},\n", n, v));
                    }
                    s.push_str("}\n\n");
                }
                Kind::Typedef(t) => {
                    s.push_str(&format!("typedef {} {}{}\n\n", self.ty_text(file, t), d.name, Self::annots_text(&d.annots)));
                }
                Kind::Struct | Kind::Exception | Kind::Union => {
                    let kw = match d.kind {
                        Kind::Struct => "struct",
                        Kind::Exception => "exception",
                        _ => "union",
                    };
                    s.push_str(&format!("{} {} {{\n", kw, d.name));
                    for f in &d.fields {
                        s.push_str(&self.field_text(file, f, d.kind == Kind::Union));
                    }
                    s.push_str(&format!("}}{}\n\n", Self::annots_text(&d.annots)));
                }
            }
        }
        for c in self.consts.iter().filter(|c| c.file == file) {
            s.push_str(&format!("const {} {} = {}\n\n", self.ty_text(file, &c.ty), c.name, self.lit_text(file, &c.val)));
        }
        for sv in self.services.iter().filter(|sv| sv.file == file) {
            s.push_str(&format!("service {} {{\n", sv.name));
            for m in &sv.methods {
                let ret = match &m.ret {
                    Some(t) => self.ty_text(file, t),
                    None => "void".into(),
                };
                let args = m
                    .args
                    .iter()
                    .map(|f| {
                        let req = match f.req {
                            Req::Optional => "optional ",
                            Req::Required => "required ",
                            Req::Default => "",
                        };
                        format!("{}: {}{} {}", f.id, req, self.ty_text(file, &f.ty), f.name)
                    })
                    .collect::<Vec<_>>()
                    .join(", ");
                let throws = if m.throws.is_empty() {
                    String::new()
                } else {
                    format!(
                        " throws ({})",
                        m.throws.iter().map(|f| format!("{}: {} {}", f.id, self.ty_text(file, &f.ty), f.name)).collect::<Vec<_>>().join(", ")
                    )
                };
                s.push_str(&format!("  {}{} {}({}){},\n", if m.oneway { "oneway " } else { "" }, ret, m.name, args, throws));
            }
            s.push_str("}\n\n");
        }
        s
    }

    // ------------------------------------------------------------------
    // targets (types driven through Message)

    fn upper_camel(s: &str) -> String {
        let mut out = String::new();
        let mut up = true;
        for c in s.chars() {
            if c == '_' {
                up = true;
            } else if up {
                out.extend(c.to_uppercase());
                up = false;
            } else {
                out.push(c);
            }
        }
        out
    }

    pub fn targets(&self, root_mod: &str) -> Vec<Target> {
        let mut v = vec![];
        for (i, d) in self.defs.iter().enumerate() {
            let mut p = vec![root_mod.to_string()];
            p.extend(self.mod_path(d.file));
            p.push(d.name.clone());
            v.push(Target { rust_path: p.join("::"), name: format!("{}.{}", self.files[d.file].stem, d.name), shape: Shape::Def(i) });
        }
        for (si, sv) in self.services.iter().enumerate() {
            for (mi, m) in sv.methods.iter().enumerate() {
                let base = format!("{}{}", sv.name, Self::upper_camel(&m.name));
                let mut p = vec![root_mod.to_string()];
                p.extend(self.mod_path(sv.file));
                let modp = p.join("::");
                for (suffix, shape) in [
                    ("ArgsSend", Shape::Args(si, mi)),
                    ("ArgsRecv", Shape::Args(si, mi)),
                    ("ResultSend", Shape::Result(si, mi)),
                    ("ResultRecv", Shape::Result(si, mi)),
                ] {
                    if m.oneway && suffix.starts_with("Result") {
                        // oneway methods still get result types in pilota; keep them
                    }
                    v.push(Target { rust_path: format!("{}::{}{}", modp, base, suffix), name: format!("{}.{}{}", self.files[sv.file].stem, base, suffix), shape: shape.clone() });
                }
                if !m.throws.is_empty() {
                    v.push(Target { rust_path: format!("{}::{}Exception", modp, base), name: format!("{}.{}Exception", self.files[sv.file].stem, base), shape: Shape::Exception(si, mi) });
                }
            }
        }
        v
    }

    /// the (fields, is_union, ok_when_empty) view of a target
    pub fn target_fields(&self, sh: &Shape) -> (Vec<Field>, bool, bool) {
        match sh {
            Shape::Def(i) => {
                // a typedef (chain) of a struct-like has the fields of its target
                let mut j = *i;
                while let Kind::Typedef(Ty::Ref(k)) = &self.defs[j].kind {
                    j = *k;
                }
                let d = &self.defs[j];
                (d.fields.clone(), d.kind == Kind::Union, false)
            }
            Shape::Args(s, m) => (self.services[*s].methods[*m].args.clone(), false, false),
            Shape::Result(s, m) => {
                let me = &self.services[*s].methods[*m];
                let mut fs = vec![];
                if let Some(t) = &me.ret {
                    fs.push(Field { id: 0, name: "ok".into(), req: Req::Default, ty: t.clone(), default: None, annots: vec![] });
                }
                fs.extend(me.throws.iter().cloned());
                (fs, true, me.ret.is_none())
            }
            Shape::Exception(s, m) => (self.services[*s].methods[*m].throws.clone(), true, false),
        }
    }

    pub fn target_tt(&self, sh: &Shape) -> TT {
        match sh {
            Shape::Def(i) => self.tt(&Ty::Ref(*i)),
            _ => TT::Struct,
        }
    }

    // ------------------------------------------------------------------
    // literal evaluation

    pub fn eval_lit(&self, ty: &Ty, l: &Lit) -> Option<TVal> {
        let rt = self.resolve(ty).clone();
        if let Lit::Const(c) = l {
            return self.eval_lit(ty, &self.consts[*c].val.clone());
        }
        Some(match (&rt, l) {
            (Ty::Bool, Lit::Bool(b)) => TVal::Bool(*b),
            (Ty::Bool, Lit::Int(i)) => TVal::Bool(*i != 0),
            (Ty::I8, Lit::Int(i)) => TVal::I8(*i as i8),
            (Ty::I16, Lit::Int(i)) => TVal::I16(*i as i16),
            (Ty::I32, Lit::Int(i)) => TVal::I32(*i as i32),
            (Ty::I64, Lit::Int(i)) => TVal::I64(*i),
            (Ty::I8, Lit::EnumMember(d, m)) | (Ty::I16, Lit::EnumMember(d, m)) | (Ty::I32, Lit::EnumMember(d, m)) | (Ty::I64, Lit::EnumMember(d, m)) => {
                let n = if let Kind::Enum(ms) = &self.defs[*d].kind { ms[*m].1 } else { 0 };
                match rt {
                    Ty::I8 => TVal::I8(n as i8),
                    Ty::I16 => TVal::I16(n as i16),
                    Ty::I32 => TVal::I32(n),
                    _ => TVal::I64(n as i64),
                }
            }
            (Ty::Double, Lit::Int(i)) => TVal::Double((*i as f64).to_bits()),
            (Ty::Double, Lit::Dbl(s)) => TVal::Double(s.parse::<f64>().ok()?.to_bits()),
            (Ty::Str, Lit::Str(s)) | (Ty::Bin, Lit::Str(s)) => TVal::Binary(s.as_bytes().to_vec()),
            (Ty::Ref(d), Lit::EnumMember(d2, m)) if d == d2 => {
                if let Kind::Enum(ms) = &self.defs[*d].kind {
                    TVal::I32(ms[*m].1)
                } else {
                    return None;
                }
            }
            (Ty::Ref(d), Lit::Int(i)) if matches!(self.defs[*d].kind, Kind::Enum(_)) => TVal::I32(*i as i32),
            (Ty::List(t), Lit::List(xs)) => TVal::List(self.tt(t), xs.iter().map(|x| self.eval_lit(t, x)).collect::<Option<Vec<_>>>()?),
            (Ty::Set(t), Lit::List(xs)) => TVal::Set(self.tt(t), xs.iter().map(|x| self.eval_lit(t, x)).collect::<Option<Vec<_>>>()?),
            (Ty::List(t), Lit::EmptyBrackets) => TVal::List(self.tt(t), vec![]),
            (Ty::Set(t), Lit::EmptyBrackets) => TVal::Set(self.tt(t), vec![]),
            (Ty::Map(k, v), Lit::Map(es)) => TVal::Map(
                self.tt(k),
                self.tt(v),
                es.iter().map(|(a, b)| Some((self.eval_lit(k, a)?, self.eval_lit(v, b)?))).collect::<Option<Vec<_>>>()?,
            ),
            (Ty::Map(k, v), Lit::EmptyBrackets) => TVal::Map(self.tt(k), self.tt(v), vec![]),
            (Ty::Ref(d), Lit::Struct(_)) | (Ty::Ref(d), Lit::Map(_)) if matches!(self.defs[*d].kind, Kind::Struct | Kind::Exception) => {
                // struct literal: named fields override the struct's own defaults
                let empty = vec![];
                let fs = if let Lit::Struct(fs) = l { fs } else { &empty };
                let mut out = vec![];
                for f in &self.defs[*d].fields {
                    if let Some((_, lv)) = fs.iter().find(|(n, _)| *n == f.name) {
                        out.push((f.id, self.eval_lit(&f.ty, lv)?));
                    } else if let Some(v) = self.field_default_present(f) {
                        out.push((f.id, v));
                    }
                }
                TVal::Struct(out)
            }
            _ => return None,
        })
    }

    // ------------------------------------------------------------------
    // semantic functions

    /// zero value of a type (what `Default::default()` of the Rust type means)
    pub fn zero(&self, ty: &Ty) -> TVal {
        match self.resolve(ty) {
            Ty::Bool => TVal::Bool(false),
            Ty::I8 => TVal::I8(0),
            Ty::I16 => TVal::I16(0),
            Ty::I32 => TVal::I32(0),
            Ty::I64 => TVal::I64(0),
            Ty::Double => TVal::Double(0),
            Ty::Str | Ty::Bin => TVal::Binary(vec![]),
            Ty::Uuid => TVal::Uuid([0; 16]),
            Ty::List(t) => TVal::List(self.tt(t), vec![]),
            Ty::Set(t) => TVal::Set(self.tt(t), vec![]),
            Ty::Map(k, v) => TVal::Map(self.tt(k), self.tt(v), vec![]),
            Ty::Ref(d) => match &self.defs[*d].kind {
                Kind::Enum(_) => TVal::I32(0),
                Kind::Typedef(_) => unreachable!(),
                // pilota's Default for a union is its first variant holding that variant's default
                Kind::Union => match self.defs[*d].fields.first() {
                    Some(f) => TVal::Struct(vec![(f.id, self.zero(&f.ty))]),
                    None => TVal::Struct(vec![]),
                },
                _ => self.zero_struct(&self.defs[*d].fields),
            },
        }
    }

    /// the value a field holds when it was absent on the wire (None = stays absent)
    pub fn field_default_present(&self, f: &Field) -> Option<TVal> {
        match (&f.default, f.req) {
            (Some(l), _) => self.eval_lit(&f.ty, l),
            // pilota represents default-requiredness fields as Option<T> exactly
            // like optional ones ("the type's empty value or absence"): absent
            // on the wire stays absent unless the IDL gives a default
            (None, Req::Optional) | (None, Req::Default) => None,
            (None, Req::Required) => Some(self.zero(&f.ty)),
        }
    }

    /// `Default::default()` of a struct with these fields, as the wire value
    /// its encoding must decode to
    pub fn zero_struct(&self, fields: &[Field]) -> TVal {
        let mut out = vec![];
        for f in fields {
            if let Some(v) = self.field_default_present(f) {
                out.push((f.id, v));
            }
        }
        TVal::Struct(out)
    }

    /// What `encode(decode(enc(x)))` must decode to under the schema: fields
    /// sorted by id, absent fields with a default filled in, set elements and
    /// map entries in canonical order. `ty` is the declared type of `x`.
    pub fn expected_roundtrip(&self, ty: &Ty, x: &TVal) -> TVal {
        match (self.resolve(ty), x) {
            (Ty::List(t), TVal::List(tt, xs)) => TVal::List(*tt, xs.iter().map(|v| self.expected_roundtrip(t, v)).collect()),
            (Ty::Set(t), TVal::Set(tt, xs)) => {
                let mut ys: Vec<TVal> = xs.iter().map(|v| self.expected_roundtrip(t, v)).collect();
                sort_dedup(&mut ys);
                TVal::Set(*tt, ys)
            }
            (Ty::Map(k, v), TVal::Map(kt, vt, es)) => {
                let mut ys: Vec<(TVal, TVal)> = es.iter().map(|(a, b)| (self.expected_roundtrip(k, a), self.expected_roundtrip(v, b))).collect();
                sort_dedup_map(&mut ys);
                TVal::Map(*kt, *vt, ys)
            }
            (Ty::Ref(d), TVal::Struct(fs)) => {
                let def = &self.defs[*d];
                self.expected_fields(&def.fields, def.kind == Kind::Union, fs)
            }
            _ => x.clone(),
        }
    }

    pub fn expected_fields(&self, fields: &[Field], is_union: bool, fs: &[(i16, TVal)]) -> TVal {
        let mut out: Vec<(i16, TVal)> = vec![];
        for f in fields {
            // last occurrence wins if an id is repeated on the wire
            if let Some((_, v)) = fs.iter().rev().find(|(id, _)| *id == f.id) {
                out.push((f.id, self.expected_roundtrip(&f.ty, v)));
            } else if !is_union {
                if let Some(v) = self.field_default_present(f) {
                    out.push((f.id, self.canon(&v)));
                }
            }
        }
        out.sort_by_key(|x| x.0);
        TVal::Struct(out)
    }

    /// canonical form for comparison (schema-free): struct fields sorted by id,
    /// set elements / map entries sorted by their encoding
    pub fn canon(&self, v: &TVal) -> TVal {
        canon(v)
    }
}

pub fn canon(v: &TVal) -> TVal {
    match v {
        TVal::Struct(fs) => {
            let mut out: Vec<(i16, TVal)> = fs.iter().map(|(i, x)| (*i, canon(x))).collect();
            out.sort_by_key(|x| x.0);
            TVal::Struct(out)
        }
        TVal::List(t, xs) => TVal::List(*t, xs.iter().map(canon).collect()),
        TVal::Set(t, xs) => {
            let mut ys: Vec<TVal> = xs.iter().map(canon).collect();
            sort_dedup(&mut ys);
            TVal::Set(*t, ys)
        }
        TVal::Map(k, vt, es) => {
            let mut ys: Vec<(TVal, TVal)> = es.iter().map(|(a, b)| (canon(a), canon(b))).collect();
            sort_dedup_map(&mut ys);
            TVal::Map(*k, *vt, ys)
        }
        other => other.clone(),
    }
}

fn key_of(v: &TVal) -> Vec<u8> {
    crate::tcodec::encode(crate::tcodec::Proto::Binary, v)
}

fn sort_dedup(xs: &mut Vec<TVal>) {
    xs.sort_by_key(key_of);
    xs.dedup_by(|a, b| key_of(a) == key_of(b));
}

fn sort_dedup_map(es: &mut Vec<(TVal, TVal)>) {
    // later entries with an equal key replace earlier ones
    let mut out: Vec<(TVal, TVal)> = vec![];
    for (k, v) in es.drain(..) {
        let kk = key_of(&k);
        if let Some(p) = out.iter().position(|(k2, _)| key_of(k2) == kk) {
            out[p] = (k, v);
        } else {
            out.push((k, v));
        }
    }
    out.sort_by_key(|x| key_of(&x.0));
    *es = out;
}

// ---------------------------------------------------------------------------
// schema-directed value generation

pub struct VGen<'a> {
    pub s: &'a Schema,
    pub rng: &'a mut Rng,
    pub max_depth: usize,
    /// 0 = minimal (only required fields), 1 = random, 2 = everything set
    pub fill: u8,
    /// allow enum numbers that are not declared
    pub undeclared_enums: bool,
}

impl<'a> VGen<'a> {
    pub fn string(&mut self) -> Vec<u8> {
        const ALPH: [&str; 9] = ["a", "Z", "0", " ", "é", "中", "🦀", "_", "\""];
        let len = match self.rng.below(8) {
            0 => 0,
            1 => 127,
            2 => 128,
            _ => self.rng.usize_below(12),
        };
        let mut s = String::new();
        while s.len() < len {
            let c = *self.rng.pick(&ALPH);
            if s.len() + c.len() > len {
                s.push('x');
            } else {
                s.push_str(c);
            }
        }
        s.into_bytes()
    }

    pub fn gen_ty(&mut self, ty: &Ty, depth: usize) -> TVal {
        let s = self.s;
        match s.resolve(ty).clone() {
            Ty::Bool => TVal::Bool(self.rng.chance(1, 2)),
            Ty::I8 => TVal::I8(interesting_i64(self.rng, 8) as i8),
            Ty::I16 => TVal::I16(interesting_i64(self.rng, 16) as i16),
            Ty::I32 => TVal::I32(interesting_i64(self.rng, 32) as i32),
            Ty::I64 => TVal::I64(interesting_i64(self.rng, 64)),
            Ty::Double => {
                // NaN is excluded from generated schemas' values: the typed
                // side compares with PartialEq, and NaN != NaN is not the
                // property's business
                loop {
                    let b = interesting_f64_bits(self.rng);
                    // -0.0 is excluded too: as a set element / map key it is Eq to
                    // +0.0 in the generated code (OrderedFloat), so two entries would
                    // legitimately collapse
                    if !f64::from_bits(b).is_nan() && b != (-0.0f64).to_bits() {
                        return TVal::Double(b);
                    }
                }
            }
            Ty::Str => TVal::Binary(self.string()),
            Ty::Bin => {
                if self.rng.chance(1, 2) {
                    TVal::Binary(self.string())
                } else {
                    let n = self.rng.usize_below(10);
                    TVal::Binary(self.rng.bytes(n))
                }
            }
            Ty::Uuid => {
                let b = self.rng.bytes(16);
                let mut u = [0u8; 16];
                u.copy_from_slice(&b);
                TVal::Uuid(u)
            }
            Ty::List(t) => {
                let n = self.size(depth);
                TVal::List(s.tt(&t), (0..n).map(|_| self.gen_ty(&t, depth + 1)).collect())
            }
            Ty::Set(t) => {
                let n = self.size(depth);
                // elements that are containers themselves: canonical before the duplicate check
                let mut xs: Vec<TVal> = (0..n).map(|_| canon(&self.gen_ty(&t, depth + 1))).collect();
                sort_dedup(&mut xs);
                self.rng.shuffle(&mut xs);
                TVal::Set(s.tt(&t), xs)
            }
            Ty::Map(k, v) => {
                let n = self.size(depth);
                let mut es: Vec<(TVal, TVal)> = (0..n).map(|_| (canon(&self.gen_ty(&k, depth + 1)), self.gen_ty(&v, depth + 1))).collect();
                sort_dedup_map(&mut es);
                self.rng.shuffle(&mut es);
                TVal::Map(s.tt(&k), s.tt(&v), es)
            }
            Ty::Ref(d) => match s.defs[d].kind.clone() {
                Kind::Enum(ms) => {
                    if self.undeclared_enums && self.rng.chance(1, 5) {
                        TVal::I32(interesting_i64(self.rng, 32) as i32)
                    } else {
                        TVal::I32(self.rng.pick(&ms).1)
                    }
                }
                Kind::Typedef(_) => unreachable!(),
                Kind::Union => self.gen_union(&s.defs[d].fields.clone(), depth, false),
                _ => self.gen_fields(&s.defs[d].fields.clone(), depth),
            },
        }
    }

    fn size(&mut self, depth: usize) -> usize {
        if depth >= self.max_depth {
            return 0;
        }
        match self.fill {
            0 => 0,
            _ => match self.rng.below(8) {
                0 => 0,
                1 => 1,
                2 => {
                    if depth == 0 {
                        *self.rng.pick(&[14usize, 15, 16])
                    } else {
                        2
                    }
                }
                _ => 1 + self.rng.usize_below(3),
            },
        }
    }

    pub fn gen_fields(&mut self, fields: &[Field], depth: usize) -> TVal {
        let mut out = vec![];
        for f in fields {
            let present = match (f.req, self.fill) {
                (Req::Required, _) => true,
                (_, 0) => false,
                (_, 2) => depth < self.max_depth,
                _ => depth < self.max_depth && self.rng.chance(2, 3),
            };
            if present {
                out.push((f.id, self.gen_ty(&f.ty, depth + 1)));
            }
        }
        if self.fill == 1 && self.rng.chance(1, 4) {
            // field order on the wire is free
            self.rng.shuffle(&mut out);
        }
        TVal::Struct(out)
    }

    pub fn gen_union(&mut self, fields: &[Field], depth: usize, ok_when_empty: bool) -> TVal {
        if fields.is_empty() || (ok_when_empty && self.rng.chance(1, 3)) {
            return TVal::Struct(vec![]);
        }
        let f = &fields[self.rng.usize_below(fields.len())];
        TVal::Struct(vec![(f.id, self.gen_ty(&f.ty, depth + 1))])
    }

    pub fn gen_target(&mut self, sh: &Shape) -> TVal {
        let s = self.s;
        match sh {
            Shape::Def(i) => self.gen_ty(&Ty::Ref(*i), 0),
            _ => {
                let (fs, is_union, ok_empty) = s.target_fields(sh);
                if is_union { self.gen_union(&fs, 0, ok_empty) } else { self.gen_fields(&fs, 0) }
            }
        }
    }
}

impl Schema {
    /// expected round-trip value for a whole target
    pub fn expected_target(&self, sh: &Shape, x: &TVal) -> TVal {
        match sh {
            Shape::Def(i) => self.expected_roundtrip(&Ty::Ref(*i), x),
            _ => {
                let (fs, is_union, _) = self.target_fields(sh);
                match x {
                    TVal::Struct(xs) => self.expected_fields(&fs, is_union, xs),
                    _ => x.clone(),
                }
            }
        }
    }
}

// ---------------------------------------------------------------------------
// G_thrift, plain naming profile

#[derive(Clone, Debug)]
pub struct GenProfile {
    pub files: usize,
    pub structs: usize,
    pub unions: usize,
    pub enums: usize,
    pub typedefs: usize,
    pub exceptions: usize,
    pub services: usize,
    pub defaults: bool,
    /// how many distinct struct / exception definitions services may name directly
    pub arg_pool: usize,
    /// namespace layout 0..6, or -1 = drawn from the seed
    pub ns_style: i8,
    pub annotations: bool,
    pub recursion: bool,
}

impl GenProfile {
    /// `name` = profile name, optionally followed by `@ns<k>` to fix the namespace layout
    pub fn named(name: &str) -> GenProfile {
        if let Some((base, ns)) = name.split_once("@ns") {
            let mut p = GenProfile::named(base);
            p.ns_style = ns.parse::<i8>().unwrap_or(-1);
            return p;
        }
        match name {
            "defaults" => GenProfile { files: 2, structs: 10, unions: 1, enums: 2, typedefs: 3, exceptions: 1, services: 0, defaults: true, arg_pool: 2, ns_style: -1, annotations: false, recursion: false },
            "small" => GenProfile { files: 1, structs: 3, unions: 1, enums: 1, typedefs: 1, exceptions: 1, services: 1, defaults: true, arg_pool: 2, ns_style: -1, annotations: false, recursion: true },
            // many definitions, several services that reach only part of them (C17: the
            // builder's default ignore_unused mode walks the used items from the services)
            // one file, one namespace, several hundred definitions (C17: work that is split
            // by item count rather than by namespace)
            "big1" => GenProfile { files: 1, structs: 300, unions: 10, enums: 12, typedefs: 12, exceptions: 4, services: 2, defaults: true, arg_pool: 8, ns_style: -1, annotations: false, recursion: true },
            "sparse" => GenProfile { files: 3, structs: 60, unions: 6, enums: 8, typedefs: 8, exceptions: 4, services: 6, defaults: true, arg_pool: 24, ns_style: -1, annotations: false, recursion: true },
            _ => GenProfile { files: 3, structs: 8, unions: 2, enums: 2, typedefs: 3, exceptions: 2, services: 1, defaults: true, arg_pool: 2, ns_style: -1, annotations: true, recursion: true },
        }
    }
}

struct G<'a> {
    rng: &'a mut Rng,
    s: Schema,
    p: GenProfile,
    /// def whose fields are being generated: never picked at random (a
    /// required self-reference has no finite value); recursion is introduced
    /// deliberately through optional fields and containers
    cur: Option<usize>,
    /// nesting depth of the struct literal being generated
    lit_depth: usize,
}

impl<'a> G<'a> {
    fn visible(&self, from_file: usize, def: usize) -> bool {
        let df = self.s.defs[def].file;
        df == from_file || self.s.files[from_file].includes.contains(&df)
    }

    fn pick_def(&mut self, from_file: usize, pred: impl Fn(&Def) -> bool) -> Option<usize> {
        let c: Vec<usize> = (0..self.s.defs.len()).filter(|i| Some(*i) != self.cur && self.visible(from_file, *i) && pred(&self.s.defs[*i])).collect();
        if c.is_empty() { None } else { Some(c[self.rng.usize_below(c.len())]) }
    }

    /// a type usable as map key / set element ("hashable"): scalars, string,
    /// binary, enums, typedefs of those, and key-only structs
    fn key_ty(&mut self, file: usize) -> Ty {
        match self.rng.below(12) {
            0 => Ty::Bool,
            1 => Ty::I8,
            2 => Ty::I16,
            3 => Ty::I32,
            4 => Ty::I64,
            5 | 6 => Ty::Str,
            7 => Ty::Bin,
            8 => Ty::Double,
            9 => self.pick_def(file, |d| matches!(d.kind, Kind::Enum(_))).map(Ty::Ref).unwrap_or(Ty::I32),
            10 => self.pick_def(file, |d| d.name.starts_with("K")).map(Ty::Ref).unwrap_or(Ty::Str),
            _ => Ty::Uuid,
        }
    }

    fn scalar_ty(&mut self, file: usize) -> Ty {
        match self.rng.below(11) {
            0 => Ty::Bool,
            1 => Ty::I8,
            2 => Ty::I16,
            3 => Ty::I32,
            4 => Ty::I64,
            5 => Ty::Double,
            6 | 7 => Ty::Str,
            8 => Ty::Bin,
            9 => Ty::Uuid,
            _ => self.pick_def(file, |d| matches!(d.kind, Kind::Enum(_))).map(Ty::Ref).unwrap_or(Ty::I32),
        }
    }

    /// any type; `nest` = remaining container nesting; `self_idx` allows a
    /// reference to the def being generated (recursion) where it is safe
    fn any_ty(&mut self, file: usize, nest: usize, allow_struct: bool) -> Ty {
        let r = self.rng.below(10);
        if nest > 0 && r < 3 {
            return match self.rng.below(3) {
                0 => Ty::List(Box::new(self.any_ty(file, nest - 1, allow_struct))),
                1 => Ty::Set(Box::new(self.key_ty(file))),
                _ => Ty::Map(Box::new(self.key_ty(file)), Box::new(self.any_ty(file, nest - 1, allow_struct))),
            };
        }
        if allow_struct && r < 6 {
            if let Some(d) = self.pick_def(file, |d| matches!(d.kind, Kind::Struct | Kind::Union | Kind::Typedef(_)) && !d.name.starts_with("K")) {
                return Ty::Ref(d);
            }
        }
        self.scalar_ty(file)
    }

    /// are all definitions the type names visible from `file`?
    fn ty_visible(&self, file: usize, ty: &Ty) -> bool {
        match ty {
            Ty::List(t) | Ty::Set(t) => self.ty_visible(file, t),
            Ty::Map(k, v) => self.ty_visible(file, k) && self.ty_visible(file, v),
            Ty::Ref(d) => {
                self.visible(file, *d)
                    && match &self.s.defs[*d].kind {
                        Kind::Typedef(t) => {
                            let t = t.clone();
                            self.ty_visible(file, &t)
                        }
                        _ => true,
                    }
            }
            _ => true,
        }
    }

    fn default_for(&mut self, file: usize, ty: &Ty) -> Option<Lit> {
        let rt = self.s.resolve(ty).clone();
        Some(match rt {
            Ty::Bool => {
                if self.rng.chance(1, 2) { Lit::Bool(self.rng.chance(1, 2)) } else { Lit::Int(self.rng.range(0, 3)) }
            }
            Ty::I8 => Lit::Int(self.rng.range(-128, 127)),
            Ty::I16 => Lit::Int(self.rng.range(-32768, 32767)),
            Ty::I32 => {
                if self.rng.chance(1, 4) {
                    if let Some(c) = (0..self.s.consts.len()).find(|c| self.s.consts[*c].ty == Ty::I32 && (self.s.consts[*c].file == file || self.s.files[file].includes.contains(&self.s.consts[*c].file))) {
                        return Some(Lit::Const(c));
                    }
                }
                Lit::Int(interesting_i64(self.rng, 32))
            }
            Ty::I64 => Lit::Int(interesting_i64(self.rng, 53)),
            Ty::Double => {
                if self.rng.chance(1, 2) { Lit::Int(self.rng.range(-1000, 1000)) } else { Lit::Dbl(format!("{}.{}", self.rng.range(-99, 99), self.rng.range(0, 999))) }
            }
            Ty::Str => {
                if self.rng.chance(1, 4) {
                    if let Some(c) = (0..self.s.consts.len()).find(|c| self.s.consts[*c].ty == Ty::Str && (self.s.consts[*c].file == file || self.s.files[file].includes.contains(&self.s.consts[*c].file))) {
                        return Some(Lit::Const(c));
                    }
                }
                Lit::Str((*self.rng.pick(&["", "hello world", "off", "a b", "x_y-z", "Zürich 中"])).to_string())
            }
            Ty::Bin => Lit::Str((*self.rng.pick(&["", "bytes", "0123"])).to_string()),
            Ty::Uuid => return None,
            Ty::Ref(d) => match &self.s.defs[d].kind {
                Kind::Enum(ms) => {
                    if self.rng.chance(2, 3) { Lit::EnumMember(d, self.rng.usize_below(ms.len())) } else { Lit::Int(ms[self.rng.usize_below(ms.len())].1 as i64) }
                }
                // nested struct literal. Every inner field that has its own IDL
                // default is named (what an unnamed one holds is not fixed by the
                // property); the others are named at random. Names are the IDL
                // spelling of the inner field.
                Kind::Struct if Some(d) != self.cur && self.lit_depth < 2 && !self.s.defs[d].name.starts_with("K") => {
                    let fields = self.s.defs[d].fields.clone();
                    let mut fs = vec![];
                    self.lit_depth += 1;
                    let mut ok = true;
                    for f in &fields {
                        let must = f.default.is_some();
                        if !(must || self.rng.chance(1, 2)) {
                            continue;
                        }
                        let lit = if self.ty_visible(file, &f.ty) { self.default_for(file, &f.ty) } else { None };
                        match lit {
                            Some(l) => fs.push((f.name.clone(), l)),
                            None if must => {
                                ok = false;
                                break;
                            }
                            None => {}
                        }
                    }
                    self.lit_depth -= 1;
                    if !ok {
                        return None;
                    }
                    Lit::Struct(fs)
                }
                _ => return None,
            },
            Ty::List(ref t) | Ty::Set(ref t) => {
                let n = self.rng.usize_below(3);
                if n == 0 && self.rng.chance(1, 2) {
                    return Some(Lit::EmptyBrackets);
                }
                let mut xs = vec![];
                for _ in 0..n {
                    xs.push(self.default_for(file, t)?);
                }
                // set literals must not repeat an element (list literals may, and do)
                if matches!(rt, Ty::Set(_)) {
                    let mut seen: Vec<Lit> = vec![];
                    xs.retain(|x| {
                        if seen.contains(x) { false } else { seen.push(x.clone()); true }
                    });
                }
                Lit::List(xs)
            }
            Ty::Map(k, v) => {
                let n = self.rng.usize_below(3);
                if n == 0 {
                    return Some(if self.rng.chance(1, 2) { Lit::EmptyBrackets } else { Lit::Map(vec![]) });
                }
                let mut es: Vec<(Lit, Lit)> = vec![];
                for _ in 0..n {
                    let kk = self.default_for(file, &k)?;
                    let vv = self.default_for(file, &v)?;
                    if !es.iter().any(|(a, _)| *a == kk) {
                        es.push((kk, vv));
                    }
                }
                Lit::Map(es)
            }
        })
    }

    fn mk_fields(&mut self, file: usize, n: usize, union_: bool, self_idx: Option<usize>) -> Vec<Field> {
        self.cur = Some(self.s.defs.len() - 1);
        let mut fs = vec![];
        let mut id = 0i16;
        for i in 0..n {
            let gap = if self.rng.chance(1, 5) { 20 } else { 2 };
            id += 1 + self.rng.below(gap) as i16;
            let mut ty = self.any_ty(file, 3, true);
            let mut req = if union_ {
                Req::Default
            } else {
                match self.rng.below(3) {
                    0 => Req::Required,
                    1 => Req::Optional,
                    _ => Req::Default,
                }
            };
            // recursion: through optional fields and through containers
            if let Some(me) = self_idx {
                if self.p.recursion && !union_ && self.rng.chance(1, 6) {
                    match self.rng.below(3) {
                        0 => {
                            ty = Ty::Ref(me);
                            req = Req::Optional;
                        }
                        1 => ty = Ty::List(Box::new(Ty::Ref(me))),
                        _ => ty = Ty::Map(Box::new(Ty::Str), Box::new(Ty::Ref(me))),
                    }
                }
            }
            // a struct-typed (non-container) field that is not optional may
            // create an infinitely sized default through mutual recursion;
            // references to already declared defs only go "backwards", so a
            // cycle needs self_idx, handled above.
            let default = if self.p.defaults && !union_ && self.rng.chance(1, 3) { self.default_for(file, &ty) } else { None };
            let mut annots = vec![];
            if self.p.annotations && self.rng.chance(1, 8) {
                match self.s.resolve(&ty) {
                    Ty::Str => annots.push(("pilota.rust_type".to_string(), "string".to_string())),
                    Ty::Bin => annots.push(("pilota.rust_type".to_string(), "vec".to_string())),
                    Ty::Map(..) | Ty::Set(_) => {
                        // btree needs Ord keys; doubles are OrderedFloat, fine
                        annots.push(("pilota.rust_type".to_string(), "btree".to_string()))
                    }
                    _ => {}
                }
            }
            // some names are not lower snake_case: the Rust identifier differs from the IDL spelling
            let name = match self.rng.below(8) {
                0 => format!("retryCount{}", i + 1),
                1 => format!("UserName{}", i + 1),
                _ => format!("f{}", i + 1),
            };
            fs.push(Field { id, name, req, ty, default, annots });
        }
        // field ids are not always declared in ascending order (a low id appended last, a
        // fully shuffled struct)
        if !union_ && fs.len() >= 2 {
            match self.rng.below(6) {
                0 => self.rng.shuffle(&mut fs),
                1 => {
                    let first = fs.remove(0);
                    fs.push(first);
                }
                _ => {}
            }
        }
        fs
    }
}

/// Generate a Thrift corpus. Deterministic in (`seed`, `profile`).
pub fn generate(seed: u64, profile: &GenProfile) -> Schema {
    let mut rng = Rng::new(seed ^ 0x1D1_6E4);
    let mut g = G { rng: &mut rng, s: Schema::default(), p: profile.clone(), cur: None, lit_depth: 0 };
    // files: c0 is the entry (services live there) and includes the others;
    // higher-numbered files are included by lower-numbered ones
    // namespace layouts: none; entry file only; multi-segment paths that differ
    // in the middle and agree again below; that differ at the top; nested prefixes
    let drawn = g.rng.below(6);
    let ns_style = if profile.ns_style >= 0 { profile.ns_style as u64 % 6 } else { drawn };
    for i in 0..profile.files {
        let v = |xs: &[&str]| Some(xs.iter().map(|x| x.to_string()).collect::<Vec<String>>());
        let ns = match ns_style {
            0 | 1 => if i == 0 && ns_style == 1 { v(&["p0", "q0"]) } else { None },
            2 => v(&["shop", &format!("m{}", i), "model"]),
            3 => v(&[&format!("api{}", i), "common"]),
            4 => match i {
                0 => v(&["a0", "b0", "c0"]),
                1 => v(&["a0", "b0"]),
                2 => v(&["a0"]),
                _ => None,
            },
            _ => if i % 2 == 0 { v(&["shop", &format!("m{}", i), "model"]) } else { None },
        };
        g.s.files.push(FileInfo { stem: format!("c{}", i), namespace: ns, includes: vec![] });
    }
    for i in 0..profile.files {
        for j in i + 1..profile.files {
            // odd seeds: a pure chain c0 -> c1 -> c2, so that the last file is reached
            // from the entry only through an include of an include
            let extra = g.rng.chance(1, 2) && seed & 1 == 0;
            if j == i + 1 || extra {
                g.s.files[i].includes.push(j);
            }
        }
    }
    // declare from the last file backwards so that includes only see complete defs
    let mut counters = (0usize, 0usize, 0usize, 0usize, 0usize, 0usize); // S U E T X K
    for file in (0..profile.files).rev() {
        let share = |n: usize, files: usize, file: usize| -> usize { n / files + if file < n % files { 1 } else { 0 } };
        // enums
        for _ in 0..share(profile.enums, profile.files, file) {
            let n = 1 + g.rng.usize_below(5);
            let mut ms: Vec<(String, i32)> = vec![];
            for k in 0..n {
                let v = loop {
                    let v = match g.rng.below(4) {
                        0 => k as i32,
                        1 => -(g.rng.below(50) as i32) - 1,
                        _ => g.rng.below(1000) as i32,
                    };
                    if !ms.iter().any(|m| m.1 == v) {
                        break v;
                    }
                };
                ms.push((format!("A{}", k), v));
            }
            g.s.defs.push(Def { file, name: format!("E{}", counters.2), kind: Kind::Enum(ms), fields: vec![], annots: vec![] });
            counters.2 += 1;
        }
        // consts
        if profile.defaults {
            let nc = g.s.consts.len();
            g.s.consts.push(ConstDef { file, name: format!("K_I{}", nc), ty: Ty::I32, val: Lit::Int(g.rng.range(-500, 500)) });
            g.s.consts.push(ConstDef { file, name: format!("K_S{}", nc), ty: Ty::Str, val: Lit::Str(format!("const{}", nc)) });
        }
        // one key-only struct per file (usable as map key / set element)
        {
            let fields = vec![
                Field { id: 1, name: "f1".into(), req: Req::Required, ty: Ty::I32, default: None, annots: vec![] },
                Field { id: 2, name: "f2".into(), req: Req::Optional, ty: Ty::Str, default: None, annots: vec![] },
            ];
            g.s.defs.push(Def { file, name: format!("K{}", counters.5), kind: Kind::Struct, fields, annots: vec![] });
            counters.5 += 1;
        }
        // typedefs, structs, unions, exceptions interleaved
        let mut todo: Vec<u8> = vec![];
        todo.extend(std::iter::repeat(0u8).take(share(profile.structs, profile.files, file)));
        todo.extend(std::iter::repeat(1u8).take(share(profile.unions, profile.files, file)));
        todo.extend(std::iter::repeat(2u8).take(share(profile.typedefs, profile.files, file)));
        todo.extend(std::iter::repeat(3u8).take(share(profile.exceptions, profile.files, file)));
        g.rng.shuffle(&mut todo);
        for k in todo {
            match k {
                0 => {
                    let idx = g.s.defs.len();
                    g.s.defs.push(Def { file, name: format!("S{}", counters.0), kind: Kind::Struct, fields: vec![], annots: vec![] });
                    counters.0 += 1;
                    let n = if g.rng.chance(1, 10) { 0 } else { 1 + g.rng.usize_below(8) };
                    let fs = g.mk_fields(file, n, false, Some(idx));
                    g.s.defs[idx].fields = fs;
                }
                1 => {
                    let idx = g.s.defs.len();
                    g.s.defs.push(Def { file, name: format!("U{}", counters.1), kind: Kind::Union, fields: vec![], annots: vec![] });
                    counters.1 += 1;
                    let n = 1 + g.rng.usize_below(5);
                    let fs = g.mk_fields(file, n, true, None);
                    g.s.defs[idx].fields = fs;
                }
                2 => {
                    let t = match g.rng.below(4) {
                        0 => g.scalar_ty(file),
                        1 => Ty::List(Box::new(g.any_ty(file, 1, true))),
                        2 => Ty::Map(Box::new(g.key_ty(file)), Box::new(g.scalar_ty(file))),
                        _ => g.any_ty(file, 2, true),
                    };
                    g.s.defs.push(Def { file, name: format!("T{}", counters.3), kind: Kind::Typedef(t), fields: vec![], annots: vec![] });
                    counters.3 += 1;
                }
                _ => {
                    let idx = g.s.defs.len();
                    g.s.defs.push(Def { file, name: format!("X{}", counters.4), kind: Kind::Exception, fields: vec![], annots: vec![] });
                    counters.4 += 1;
                    let n = 1 + g.rng.usize_below(3);
                    let fs = g.mk_fields(file, n, false, None);
                    g.s.defs[idx].fields = fs;
                }
            }
        }
    }
    // directed, in every corpus: alias chains (typedef of a typedef) ending in a
    // scalar, a container, an enum and a struct, used in every requiredness,
    // as container elements and as union variants
    {
        let file = 0usize;
        let en = g.pick_def(file, |d| matches!(d.kind, Kind::Enum(_))).map(Ty::Ref).unwrap_or(Ty::I32);
        let st = g.pick_def(file, |d| matches!(d.kind, Kind::Struct) && !d.name.starts_with("K")).map(Ty::Ref).unwrap_or(Ty::Str);
        let ends = vec![Ty::I64, Ty::List(Box::new(Ty::Str)), en, st, Ty::Bool, Ty::Map(Box::new(Ty::I32), Box::new(Ty::Double))];
        let mut tops = vec![];
        for e in ends {
            let a = g.s.defs.len();
            g.s.defs.push(Def { file, name: format!("T{}", counters.3), kind: Kind::Typedef(e), fields: vec![], annots: vec![] });
            counters.3 += 1;
            let b = g.s.defs.len();
            g.s.defs.push(Def { file, name: format!("T{}", counters.3), kind: Kind::Typedef(Ty::Ref(a)), fields: vec![], annots: vec![] });
            counters.3 += 1;
            // a third level for the first two
            if tops.len() < 2 {
                let c = g.s.defs.len();
                g.s.defs.push(Def { file, name: format!("T{}", counters.3), kind: Kind::Typedef(Ty::Ref(b)), fields: vec![], annots: vec![] });
                counters.3 += 1;
                tops.push(c);
            } else {
                tops.push(b);
            }
        }
        let reqs = [Req::Default, Req::Optional, Req::Required];
        let mut fs = vec![];
        let mut id = 0i16;
        for (k, t) in tops.iter().enumerate() {
            for (r, req) in reqs.iter().enumerate() {
                if (k + r) % 2 == 1 && k > 1 {
                    continue;
                }
                id += 1;
                // a struct-typed required/default field is fine here: the
                // target struct is already complete and cannot refer back
                fs.push(Field { id, name: format!("f{}", id), req: *req, ty: Ty::Ref(*t), default: None, annots: vec![] });
            }
        }
        id += 1;
        fs.push(Field { id, name: format!("f{}", id), req: Req::Default, ty: Ty::List(Box::new(Ty::Ref(tops[0]))), default: None, annots: vec![] });
        id += 1;
        fs.push(Field { id, name: format!("f{}", id), req: Req::Optional, ty: Ty::Map(Box::new(Ty::Ref(tops[0])), Box::new(Ty::Ref(tops[2]))), default: None, annots: vec![] });
        // containers nested three deep (in every corpus, not only by chance)
        id += 1;
        fs.push(Field { id, name: format!("f{}", id), req: Req::Default, ty: Ty::List(Box::new(Ty::Map(Box::new(Ty::Str), Box::new(Ty::Set(Box::new(Ty::I32)))))), default: None, annots: vec![] });
        id += 1;
        fs.push(Field { id, name: format!("f{}", id), req: Req::Optional, ty: Ty::Map(Box::new(Ty::I64), Box::new(Ty::List(Box::new(Ty::List(Box::new(Ty::Ref(tops[0]))))))), default: None, annots: vec![] });
        // bool as container element / map key / map value (the compact protocol codes an
        // element bool differently from a field bool), in every corpus
        for ty in [
            Ty::List(Box::new(Ty::Bool)),
            Ty::Set(Box::new(Ty::Bool)),
            Ty::Map(Box::new(Ty::Bool), Box::new(Ty::Bool)),
            Ty::Map(Box::new(Ty::I32), Box::new(Ty::List(Box::new(Ty::Bool)))),
            // containers in hashed position (set element, map key)
            Ty::Set(Box::new(Ty::List(Box::new(Ty::Double)))),
            Ty::Map(Box::new(Ty::List(Box::new(Ty::I32))), Box::new(Ty::Str)),
            Ty::Map(Box::new(Ty::Set(Box::new(Ty::I32))), Box::new(Ty::I64)),
            Ty::Set(Box::new(Ty::Map(Box::new(Ty::Str), Box::new(Ty::Double)))),
        ] {
            id += 1;
            fs.push(Field { id, name: format!("f{}", id), req: if id % 2 == 0 { Req::Default } else { Req::Optional }, ty, default: None, annots: vec![] });
        }
        g.s.defs.push(Def { file, name: format!("S{}", counters.0), kind: Kind::Struct, fields: fs, annots: vec![] });
        counters.0 += 1;
        let ufs: Vec<Field> = tops
            .iter()
            .enumerate()
            .map(|(k, t)| Field { id: k as i16 + 1, name: format!("f{}", k + 1), req: Req::Default, ty: Ty::Ref(*t), default: None, annots: vec![] })
            .collect();
        // a struct that holds ONLY lists of fixed-width elements (no element owns heap memory):
        // what a failed decode of it leaves behind is the list buffer itself
        let fixed: Vec<Field> = [Ty::I64, Ty::I32, Ty::Double, Ty::I16, Ty::I8, Ty::Bool, Ty::Uuid]
            .into_iter()
            .enumerate()
            .map(|(k, t)| Field { id: k as i16 + 1, name: format!("f{}", k + 1), req: if k % 3 == 1 { Req::Optional } else { Req::Default }, ty: Ty::List(Box::new(t)), default: None, annots: vec![] })
            .collect();
        g.s.defs.push(Def { file, name: format!("S{}", counters.0), kind: Kind::Struct, fields: fixed, annots: vec![] });
        counters.0 += 1;
        let mut ufs = ufs;
        let n = ufs.len() as i16;
        ufs.push(Field { id: n + 1, name: format!("f{}", n + 1), req: Req::Default, ty: Ty::List(Box::new(Ty::Bool)), default: None, annots: vec![] });
        g.s.defs.push(Def { file, name: format!("U{}", counters.1), kind: Kind::Union, fields: ufs, annots: vec![] });
        counters.1 += 1;
    }
    // directed, when recursion is generated: MUTUAL recursion (the random part only makes
    // self-recursive structs): a two-cycle whose back edge goes through a list, declared in
    // both orders, members that hold a double / a set (derive decisions), and a three-cycle
    // through an optional field, a map value and a list
    if profile.recursion {
        let file = 0usize;
        let fld = |id: i16, req: Req, ty: Ty| Field { id, name: format!("f{}", id), req, ty, default: None, annots: vec![] };
        let mut new_struct = |g: &mut G| -> usize {
            let i = g.s.defs.len();
            g.s.defs.push(Def { file, name: format!("S{}", counters.0), kind: Kind::Struct, fields: vec![], annots: vec![] });
            counters.0 += 1;
            i
        };
        let v = new_struct(&mut g);
        g.s.defs[v].fields = vec![fld(1, Req::Default, Ty::Double), fld(2, Req::Required, Ty::Double)];
        // order 1: R then I
        let r = new_struct(&mut g);
        let i = new_struct(&mut g);
        g.s.defs[r].fields = vec![fld(1, Req::Optional, Ty::Ref(i)), fld(2, Req::Optional, Ty::Ref(v)), fld(3, Req::Default, Ty::I32)];
        g.s.defs[i].fields = vec![fld(1, Req::Default, Ty::List(Box::new(Ty::Ref(r)))), fld(2, Req::Optional, Ty::Str)];
        // order 2: I then R, with a map back edge and a set member
        let i2 = new_struct(&mut g);
        let r2 = new_struct(&mut g);
        g.s.defs[i2].fields = vec![fld(1, Req::Default, Ty::List(Box::new(Ty::Ref(r2)))), fld(2, Req::Default, Ty::Map(Box::new(Ty::Str), Box::new(Ty::Ref(r2))))];
        g.s.defs[r2].fields = vec![fld(1, Req::Optional, Ty::Ref(i2)), fld(2, Req::Required, Ty::Ref(v)), fld(3, Req::Default, Ty::Set(Box::new(Ty::I32)))];
        // more two-cycles (which member a plugin visits first depends on the definition ids:
        // several pairs at different distances, alternating declaration order)
        for k in 0..4 {
            let (a, b) = if k % 2 == 0 {
                let a = new_struct(&mut g);
                let _pad = if k >= 2 { Some(new_struct(&mut g)) } else { None };
                let b = new_struct(&mut g);
                (a, b)
            } else {
                let b = new_struct(&mut g);
                let _pad = if k >= 2 { Some(new_struct(&mut g)) } else { None };
                let a = new_struct(&mut g);
                (a, b)
            };
            // a: the member that also holds the doubles; b: refers back through a list
            g.s.defs[a].fields = vec![fld(1, Req::Optional, Ty::Ref(b)), fld(2, Req::Optional, Ty::Ref(v))];
            g.s.defs[b].fields = vec![fld(1, Req::Default, Ty::List(Box::new(Ty::Ref(a))))];
        }
        // three-cycle
        let p0 = new_struct(&mut g);
        let p1 = new_struct(&mut g);
        let p2 = new_struct(&mut g);
        g.s.defs[p0].fields = vec![fld(1, Req::Optional, Ty::Ref(p1)), fld(2, Req::Default, Ty::I64)];
        g.s.defs[p1].fields = vec![fld(1, Req::Default, Ty::Map(Box::new(Ty::I32), Box::new(Ty::Ref(p2))))];
        g.s.defs[p2].fields = vec![fld(1, Req::Default, Ty::List(Box::new(Ty::Ref(p0)))), fld(2, Req::Default, Ty::Double)];
    }
    // directed, when defaults are generated: a struct literal default that names
    // inner fields whose IDL spelling is not the Rust identifier, for an inner
    // struct with and without its own defaults, in every requiredness
    if profile.defaults {
        let file = 0usize;
        let inner = g.s.defs.len();
        let fs = vec![
            Field { id: 1, name: "retryCount".into(), req: Req::Default, ty: Ty::I32, default: None, annots: vec![] },
            Field { id: 2, name: "UserName".into(), req: Req::Optional, ty: Ty::Str, default: None, annots: vec![] },
            Field { id: 3, name: "max_idle_MS".into(), req: Req::Required, ty: Ty::I64, default: None, annots: vec![] },
            Field { id: 4, name: "plain".into(), req: Req::Default, ty: Ty::Double, default: Some(Lit::Dbl("1.5".into())), annots: vec![] },
            Field { id: 5, name: "tagList".into(), req: Req::Default, ty: Ty::List(Box::new(Ty::Str)), default: None, annots: vec![] },
        ];
        g.s.defs.push(Def { file, name: format!("S{}", counters.0), kind: Kind::Struct, fields: fs, annots: vec![] });
        counters.0 += 1;
        let lit = |n: i64| {
            Lit::Struct(vec![
                ("retryCount".to_string(), Lit::Int(n)),
                ("UserName".to_string(), Lit::Str("bob".into())),
                ("max_idle_MS".to_string(), Lit::Int(7000 + n)),
                ("plain".to_string(), Lit::Dbl("2.25".into())),
                ("tagList".to_string(), Lit::List(vec![Lit::Str("a".into()), Lit::Str("b".into())])),
            ])
        };
        let fs = vec![
            Field { id: 1, name: "primary".into(), req: Req::Default, ty: Ty::Ref(inner), default: Some(lit(3)), annots: vec![] },
            Field { id: 2, name: "fallBack".into(), req: Req::Optional, ty: Ty::Ref(inner), default: Some(lit(4)), annots: vec![] },
            Field { id: 3, name: "third".into(), req: Req::Required, ty: Ty::Ref(inner), default: Some(lit(5)), annots: vec![] },
            Field { id: 4, name: "many".into(), req: Req::Default, ty: Ty::List(Box::new(Ty::Ref(inner))), default: Some(Lit::List(vec![lit(6), lit(7)])), annots: vec![] },
        ];
        g.s.defs.push(Def { file, name: format!("S{}", counters.0), kind: Kind::Struct, fields: fs, annots: vec![] });
        counters.0 += 1;
        // constants and literals as defaults of fields whose type is a typedef (chain)
        let ci = (0..g.s.consts.len()).find(|c| g.s.consts[*c].ty == Ty::I32 && g.s.consts[*c].file == file);
        let cs = (0..g.s.consts.len()).find(|c| g.s.consts[*c].ty == Ty::Str && g.s.consts[*c].file == file);
        let mut mk_td = |g: &mut G, t: Ty, levels: usize| -> usize {
            let mut cur = t;
            let mut last = 0;
            for _ in 0..levels {
                last = g.s.defs.len();
                g.s.defs.push(Def { file, name: format!("T{}", counters.3), kind: Kind::Typedef(cur.clone()), fields: vec![], annots: vec![] });
                counters.3 += 1;
                cur = Ty::Ref(last);
            }
            last
        };
        let ti1 = mk_td(&mut g, Ty::I32, 1);
        let ti2 = mk_td(&mut g, Ty::I32, 2);
        let ts1 = mk_td(&mut g, Ty::Str, 1);
        let tl1 = mk_td(&mut g, Ty::List(Box::new(Ty::I32)), 1);
        let int_lit = |c: Option<usize>, n: i64| c.map(Lit::Const).unwrap_or(Lit::Int(n));
        let str_lit = |c: Option<usize>, t: &str| c.map(Lit::Const).unwrap_or(Lit::Str(t.to_string()));
        let fs = vec![
            Field { id: 1, name: "f1".into(), req: Req::Default, ty: Ty::Ref(ti1), default: Some(int_lit(ci, 7)), annots: vec![] },
            Field { id: 2, name: "f2".into(), req: Req::Optional, ty: Ty::Ref(ti2), default: Some(int_lit(ci, 8)), annots: vec![] },
            Field { id: 3, name: "f3".into(), req: Req::Required, ty: Ty::Ref(ti2), default: Some(Lit::Int(-9)), annots: vec![] },
            Field { id: 4, name: "f4".into(), req: Req::Default, ty: Ty::Ref(ts1), default: Some(str_lit(cs, "x y")), annots: vec![] },
            Field { id: 5, name: "f5".into(), req: Req::Optional, ty: Ty::Ref(ts1), default: Some(Lit::Str("lit".into())), annots: vec![] },
            Field { id: 6, name: "f6".into(), req: Req::Default, ty: Ty::Ref(tl1), default: Some(Lit::List(vec![Lit::Int(1), int_lit(ci, 2)])), annots: vec![] },
            // list literals with repeated elements keep every one of them, in order
            Field { id: 7, name: "f7".into(), req: Req::Default, ty: Ty::List(Box::new(Ty::I32)), default: Some(Lit::List(vec![Lit::Int(0), Lit::Int(0), Lit::Int(5), Lit::Int(0)])), annots: vec![] },
            Field { id: 8, name: "f8".into(), req: Req::Optional, ty: Ty::List(Box::new(Ty::Str)), default: Some(Lit::List(vec![Lit::Str("-".into()), Lit::Str("-".into()), Lit::Str("=".into())])), annots: vec![] },
            Field {
                id: 9,
                name: "f9".into(),
                req: Req::Required,
                ty: Ty::List(Box::new(Ty::List(Box::new(Ty::I64)))),
                default: Some(Lit::List(vec![Lit::List(vec![Lit::Int(1), Lit::Int(2)]), Lit::List(vec![Lit::Int(1), Lit::Int(2)]), Lit::List(vec![Lit::Int(3)])])),
                annots: vec![],
            },
            Field { id: 10, name: "f10".into(), req: Req::Default, ty: Ty::List(Box::new(Ty::Double)), default: Some(Lit::List(vec![Lit::Int(1), Lit::Dbl("1.0".into()), Lit::Int(1)])), annots: vec![] },
            // integer literals on double fields that an f32 cannot hold
            Field { id: 11, name: "f11".into(), req: Req::Default, ty: Ty::Double, default: Some(Lit::Int(16_777_217)), annots: vec![] },
            Field { id: 12, name: "f12".into(), req: Req::Optional, ty: Ty::Double, default: Some(Lit::Int(86_400_000_000_001)), annots: vec![] },
            Field { id: 13, name: "f13".into(), req: Req::Required, ty: Ty::Double, default: Some(Lit::Int(-123_456_789)), annots: vec![] },
            Field { id: 14, name: "f14".into(), req: Req::Default, ty: Ty::I64, default: Some(Lit::Int(-9_223_372_036_854_775_807)), annots: vec![] },
            // negative values that `lit_text` spells in hexadecimal (-0xfff, -0x7f), also inside a list
            Field { id: 15, name: "f15".into(), req: Req::Default, ty: Ty::I32, default: Some(Lit::Int(-4095)), annots: vec![] },
            Field { id: 16, name: "f16".into(), req: Req::Optional, ty: Ty::I8, default: Some(Lit::Int(-127)), annots: vec![] },
            Field { id: 17, name: "f17".into(), req: Req::Default, ty: Ty::List(Box::new(Ty::I16)), default: Some(Lit::List(vec![Lit::Int(-3), Lit::Int(2), Lit::Int(-255)])), annots: vec![] },
        ];
        g.s.defs.push(Def { file, name: format!("S{}", counters.0), kind: Kind::Struct, fields: fs, annots: vec![] });
        counters.0 += 1;
    }
    // services in the entry file. Struct / exception types named directly as an
    // argument, return or throws type get a dedicated decoder variant from
    // pilota-build (see known finding "arg-type decode takes the rest of the
    // buffer"); keep that set small (two structs, one exception per corpus) so
    // that most of the corpus stays outside it
    let mut arg_pool: Vec<usize> = vec![];
    let mut exc_pool: Option<usize> = None;
    fn svc_ty(g: &mut G, pool: &mut Vec<usize>) -> Ty {
        let cap = g.p.arg_pool;
        let t = g.any_ty(0, 2, true);
        if let Ty::Ref(d) = t {
            if matches!(g.s.defs[d].kind, Kind::Struct | Kind::Exception) {
                if pool.contains(&d) {
                    return Ty::Ref(d);
                }
                if pool.len() < cap {
                    pool.push(d);
                    return Ty::Ref(d);
                }
                let k = g.rng.usize_below(pool.len());
                return Ty::Ref(pool[k]);
            }
        }
        t
    }
    for si in 0..profile.services {
        // every service has a method that can throw (the first) and a oneway one (the second)
        let nm = 2 + g.rng.usize_below(4);
        let mut methods = vec![];
        for mi in 0..nm {
            let oneway = mi == 1 || (mi > 1 && g.rng.chance(1, 6));
            let ret = if oneway || g.rng.chance(1, 4) { None } else { Some(svc_ty(&mut g, &mut arg_pool)) };
            // (the first method always has two or three arguments with such ids, the third is reversed)
            let na = if mi == 0 { 2 + g.rng.usize_below(2) } else { g.rng.usize_below(4) };
            let mut args = vec![];
            // argument ids are not always 1..n in declaration order: gaps (a removed argument),
            // a first id other than 1, and declaration order different from id order
            let mut aid = if mi == 0 || g.rng.chance(1, 3) { 1 + g.rng.below(3) as i16 } else { 0 };
            for a in 0..na {
                aid += if (mi == 0 && a == 1) || g.rng.chance(1, 3) { 2 + g.rng.below(2) as i16 } else { 1 };
                let req = if g.rng.chance(1, 4) { Req::Optional } else { Req::Required };
                args.push(Field { id: aid, name: format!("a{}", a + 1), req, ty: svc_ty(&mut g, &mut arg_pool), default: None, annots: vec![] });
            }
            if na >= 2 && (mi == 2 || g.rng.chance(1, 3)) {
                args.reverse();
            }
            let mut throws = vec![];
            // the first method that can throw does (every corpus exercises a throws clause)
            if !oneway && (g.rng.chance(1, 2) || exc_pool.is_none()) {
                if exc_pool.is_none() {
                    exc_pool = g.pick_def(0, |d| d.kind == Kind::Exception);
                }
                if let Some(x) = exc_pool {
                    throws.push(Field { id: 1, name: "x1".to_string(), req: Req::Default, ty: Ty::Ref(x), default: None, annots: vec![] });
                }
            }
            methods.push(Method { name: format!("m{}", mi + 1), oneway, ret, args, throws });
        }
        g.s.services.push(Service { file: 0, name: format!("Svc{}", si), methods });
    }
    g.s
}

// ---------------------------------------------------------------------------
// hostile naming profile (C14 / C17 only: values are never driven through
// these corpora, so Rust paths need not be predictable)

pub const HOSTILE: [&str; 86] = [
    // Rust strict / reserved / path keywords (that the Thrift grammar does not use itself)
    "type", "self", "Self", "super", "crate", "async", "gen", "box", "dyn", "fn", "match", "impl",
    "trait", "move", "await", "yield", "loop", "while", "mod", "pub", "ref", "mut", "static", "use",
    "where", "as", "break", "continue", "else", "for", "if", "in", "let", "return", "unsafe",
    "extern", "abstract", "final", "override", "try", "macro", "virtual", "priv", "become", "do",
    "typeof", "unsized",
    // collide after case conversion
    "fooBar", "foo_bar", "FooBar", "FOO_BAR", "ID", "Id", "id", "aB", "a_b", "AB", "Ab", "getURL",
    "get_url", "GetUrl",
    // names the emitted code mentions
    "Vec", "Option", "Box", "Okay", "Error", "Default", "String", "SomeThing", "Nothing", "Result", "Sender",
    "Synced", "Clone", "Debug", "Bytes", "FastStr", "Message", "Arc",
    // shapes
    "_x", "__y", "_1", "x1y2", "UPPER", "lower", "Mixed_Case",
];

/// Names of prelude items that the emitted code uses UNQUALIFIED (`Some(..)`,
/// `None`, `+ Send`, ...). An IDL item with such a name shadows them (recorded
/// as one known finding through a directed document); the random hostile
/// profile does not draw them.
pub const PRELUDE_UNQUALIFIED: [&str; 6] = ["Some", "None", "Ok", "Err", "Send", "Sync"];

pub(crate) fn pick_name(rng: &mut Rng, taken: &mut Vec<String>, fallback: &str) -> String {
    for _ in 0..6 {
        let n = (*rng.pick(&HOSTILE)).to_string();
        if !taken.contains(&n) {
            taken.push(n.clone());
            return n;
        }
    }
    let mut i = 0;
    loop {
        let n = format!("{}{}", fallback, i);
        if !taken.contains(&n) {
            taken.push(n.clone());
            return n;
        }
        i += 1;
    }
}

/// Rename every declared thing with hostile identifiers. Uniqueness is kept
/// only in Thrift's own terms (exact spelling per scope); names that collide
/// after Rust case conversion are intended.
pub fn apply_hostile_names(s: &mut Schema, seed: u64) {
    let mut rng = Rng::new(seed ^ 0x4057_11E);
    // type-level names are unique per file (and file stems stay as they are)
    let nfiles = s.files.len();
    let mut taken: Vec<Vec<String>> = vec![vec![]; nfiles];
    for d in s.defs.iter_mut() {
        d.name = pick_name(&mut rng, &mut taken[d.file], "Ty");
        let mut ftaken = vec![];
        for f in d.fields.iter_mut() {
            f.name = pick_name(&mut rng, &mut ftaken, "fld");
        }
        if let Kind::Enum(ms) = &mut d.kind {
            let mut mtaken = vec![];
            for m in ms.iter_mut() {
                m.0 = pick_name(&mut rng, &mut mtaken, "Mem");
            }
        }
    }
    for c in s.consts.iter_mut() {
        c.name = pick_name(&mut rng, &mut taken[c.file], "CONST");
    }
    for sv in s.services.iter_mut() {
        sv.name = pick_name(&mut rng, &mut taken[sv.file], "Svc");
        let mut mtaken = vec![];
        for m in sv.methods.iter_mut() {
            m.name = pick_name(&mut rng, &mut mtaken, "meth");
            let mut ataken = vec![];
            for a in m.args.iter_mut() {
                a.name = pick_name(&mut rng, &mut ataken, "arg");
            }
            let mut ttaken = vec![];
            for a in m.throws.iter_mut() {
                a.name = pick_name(&mut rng, &mut ttaken, "exc");
            }
        }
    }
}

impl Schema {
    /// which grammar productions / side conditions this corpus uses (evidence
    /// floors of the program-quantified checks)
    pub fn features(&self) -> Vec<String> {
        let mut v: Vec<String> = vec![];
        let mut add = |s: &str| {
            if !v.iter().any(|x| x == s) {
                v.push(s.to_string())
            }
        };
        if self.files.len() >= 2 {
            add("include-2-files");
        }
        if self.files.len() >= 3 {
            add("include-3-files");
        }
        if self.files.iter().any(|f| f.namespace.is_some()) {
            add("namespace-rs");
        }
        fn ty_feats(s: &Schema, t: &Ty, pos: &str, add: &mut dyn FnMut(&str), depth: usize) {
            match t {
                Ty::List(x) => {
                    add("list");
                    if depth >= 2 {
                        add("container-nesting-3");
                    }
                    ty_feats(s, x, "list-elem", add, depth + 1)
                }
                Ty::Set(x) => {
                    add("set");
                    ty_feats(s, x, "set-elem", add, depth + 1)
                }
                Ty::Map(k, v) => {
                    add("map");
                    if depth >= 2 {
                        add("container-nesting-3");
                    }
                    ty_feats(s, k, "map-key", add, depth + 1);
                    ty_feats(s, v, "map-value", add, depth + 1)
                }
                Ty::Ref(d) => {
                    let k = match &s.defs[*d].kind {
                        Kind::Struct => "struct",
                        Kind::Exception => "exception",
                        Kind::Union => "union",
                        Kind::Enum(_) => "enum",
                        Kind::Typedef(_) => "typedef",
                    };
                    add(&format!("{}-as-{}", k, pos));
                }
                Ty::Uuid => add(&format!("uuid-as-{}", pos)),
                Ty::Double => add(&format!("double-as-{}", pos)),
                Ty::Bin => add(&format!("binary-as-{}", pos)),
                Ty::Bool => add(&format!("bool-as-{}", pos)),
                _ => {}
            }
        }
        for (i, d) in self.defs.iter().enumerate() {
            match &d.kind {
                Kind::Struct => add("struct"),
                Kind::Exception => add("exception"),
                Kind::Union => add("union"),
                Kind::Enum(ms) => {
                    add("enum");
                    if ms.iter().any(|m| m.1 < 0) {
                        add("enum-negative-value");
                    }
                }
                Kind::Typedef(t) => {
                    add("typedef");
                    ty_feats(self, t, "typedef-target", &mut add, 0);
                }
            }
            if d.fields.is_empty() && !matches!(d.kind, Kind::Enum(_) | Kind::Typedef(_)) {
                add("empty-struct-like");
            }
            for f in &d.fields {
                match f.req {
                    Req::Required => add("required"),
                    Req::Optional => add("optional"),
                    Req::Default => add("default-requiredness"),
                }
                if f.default.is_some() {
                    add("field-default");
                }
                for a in &f.annots {
                    add(&format!("annotation-{}={}", a.0, a.1));
                }
                ty_feats(self, &f.ty, if d.kind == Kind::Union { "union-variant" } else { "field" }, &mut add, 0);
                if f.ty == Ty::Ref(i) {
                    add("self-recursion-optional-field");
                }
                if let Ty::List(x) = &f.ty {
                    if **x == Ty::Ref(i) {
                        add("self-recursion-through-list");
                    }
                }
                if let Ty::Map(_, x) = &f.ty {
                    if **x == Ty::Ref(i) {
                        add("self-recursion-through-map-value");
                    }
                }
            }
        }
        if !self.consts.is_empty() {
            add("const");
        }
        for sv in &self.services {
            add("service");
            for m in &sv.methods {
                if m.oneway {
                    add("oneway");
                }
                if m.ret.is_none() {
                    add("void-method");
                }
                if !m.throws.is_empty() {
                    add("throws");
                }
                if let Some(t) = &m.ret {
                    ty_feats(self, t, "method-result", &mut add, 0);
                }
                for a in &m.args {
                    ty_feats(self, &a.ty, "method-argument", &mut add, 0);
                }
            }
        }
        v.sort();
        v
    }
}
