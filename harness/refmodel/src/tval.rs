//! Dynamic Thrift value trees (the harness's own model of "a Thrift value").
//! Nothing here knows about pilota.

use crate::rng::{Rng, fnv1a};

#[derive(Copy, Clone, Debug, PartialEq, Eq, Hash, PartialOrd, Ord)]
#[repr(u8)]
pub enum TT {
    Bool = 2,
    I8 = 3,
    Double = 4,
    I16 = 6,
    I32 = 8,
    I64 = 10,
    Binary = 11,
    Struct = 12,
    Map = 13,
    Set = 14,
    List = 15,
    Uuid = 16,
}

pub const ALL_TT: [TT; 12] = [
    TT::Bool,
    TT::I8,
    TT::Double,
    TT::I16,
    TT::I32,
    TT::I64,
    TT::Binary,
    TT::Struct,
    TT::Map,
    TT::Set,
    TT::List,
    TT::Uuid,
];

pub const SCALAR_TT: [TT; 8] = [
    TT::Bool,
    TT::I8,
    TT::Double,
    TT::I16,
    TT::I32,
    TT::I64,
    TT::Binary,
    TT::Uuid,
];

impl TT {
    pub fn from_binary_code(b: u8) -> Option<TT> {
        Some(match b {
            2 => TT::Bool,
            3 => TT::I8,
            4 => TT::Double,
            6 => TT::I16,
            8 => TT::I32,
            10 => TT::I64,
            11 => TT::Binary,
            12 => TT::Struct,
            13 => TT::Map,
            14 => TT::Set,
            15 => TT::List,
            16 => TT::Uuid,
            _ => return None,
        })
    }
    pub fn binary_code(self) -> u8 {
        self as u8
    }
    /// compact-protocol type nibble (bool uses 1 in container headers; in field
    /// headers 1 = true, 2 = false)
    pub fn compact_code(self) -> u8 {
        match self {
            TT::Bool => 1,
            TT::I8 => 3,
            TT::I16 => 4,
            TT::I32 => 5,
            TT::I64 => 6,
            TT::Double => 7,
            TT::Binary => 8,
            TT::List => 9,
            TT::Set => 10,
            TT::Map => 11,
            TT::Struct => 12,
            TT::Uuid => 13,
        }
    }
    pub fn from_compact_code(c: u8) -> Option<TT> {
        Some(match c {
            1 | 2 => TT::Bool,
            3 => TT::I8,
            4 => TT::I16,
            5 => TT::I32,
            6 => TT::I64,
            7 => TT::Double,
            8 => TT::Binary,
            9 => TT::List,
            10 => TT::Set,
            11 => TT::Map,
            12 => TT::Struct,
            13 => TT::Uuid,
            _ => return None,
        })
    }
    pub fn name(self) -> &'static str {
        match self {
            TT::Bool => "bool",
            TT::I8 => "i8",
            TT::Double => "double",
            TT::I16 => "i16",
            TT::I32 => "i32",
            TT::I64 => "i64",
            TT::Binary => "binary",
            TT::Struct => "struct",
            TT::Map => "map",
            TT::Set => "set",
            TT::List => "list",
            TT::Uuid => "uuid",
        }
    }
    /// fixed width in the binary protocol (0 = variable)
    pub fn binary_fixed(self) -> usize {
        match self {
            TT::Bool | TT::I8 => 1,
            TT::I16 => 2,
            TT::I32 => 4,
            TT::I64 | TT::Double => 8,
            TT::Uuid => 16,
            _ => 0,
        }
    }
}

#[derive(Clone, Debug, PartialEq, Eq, Hash)]
pub enum TVal {
    Bool(bool),
    I8(i8),
    I16(i16),
    I32(i32),
    I64(i64),
    /// bit pattern, so NaN payloads and -0.0 compare exactly
    Double(u64),
    Binary(Vec<u8>),
    Uuid([u8; 16]),
    Struct(Vec<(i16, TVal)>),
    List(TT, Vec<TVal>),
    Set(TT, Vec<TVal>),
    /// key type, value type, entries. For an EMPTY map decoded from the
    /// compact protocol the types are not on the wire; see `norm_empty_maps`.
    Map(TT, TT, Vec<(TVal, TVal)>),
}

impl TVal {
    pub fn tt(&self) -> TT {
        match self {
            TVal::Bool(_) => TT::Bool,
            TVal::I8(_) => TT::I8,
            TVal::I16(_) => TT::I16,
            TVal::I32(_) => TT::I32,
            TVal::I64(_) => TT::I64,
            TVal::Double(_) => TT::Double,
            TVal::Binary(_) => TT::Binary,
            TVal::Uuid(_) => TT::Uuid,
            TVal::Struct(_) => TT::Struct,
            TVal::List(..) => TT::List,
            TVal::Set(..) => TT::Set,
            TVal::Map(..) => TT::Map,
        }
    }

    /// Replace the (unobservable on compact) key/value types of empty maps by
    /// a fixed pair so trees can be compared with `==`.
    pub fn norm_empty_maps(&self) -> TVal {
        match self {
            TVal::Struct(fs) => TVal::Struct(
                fs.iter()
                    .map(|(id, v)| (*id, v.norm_empty_maps()))
                    .collect(),
            ),
            TVal::List(t, xs) => TVal::List(*t, xs.iter().map(|v| v.norm_empty_maps()).collect()),
            TVal::Set(t, xs) => TVal::Set(*t, xs.iter().map(|v| v.norm_empty_maps()).collect()),
            TVal::Map(k, v, es) => {
                if es.is_empty() {
                    TVal::Map(TT::Bool, TT::Bool, vec![])
                } else {
                    TVal::Map(
                        *k,
                        *v,
                        es.iter()
                            .map(|(a, b)| (a.norm_empty_maps(), b.norm_empty_maps()))
                            .collect(),
                    )
                }
            }
            other => other.clone(),
        }
    }

    /// nesting level: scalar = 1, container/struct = 1 + max(children)
    pub fn depth(&self) -> usize {
        match self {
            TVal::Struct(fs) => 1 + fs.iter().map(|(_, v)| v.depth()).max().unwrap_or(0),
            TVal::List(_, xs) | TVal::Set(_, xs) => {
                1 + xs.iter().map(|v| v.depth()).max().unwrap_or(0)
            }
            TVal::Map(_, _, es) => {
                1 + es
                    .iter()
                    .map(|(k, v)| k.depth().max(v.depth()))
                    .max()
                    .unwrap_or(0)
            }
            _ => 1,
        }
    }

    pub fn leaf_count(&self) -> usize {
        match self {
            TVal::Struct(fs) => fs.iter().map(|(_, v)| v.leaf_count()).sum(),
            TVal::List(_, xs) | TVal::Set(_, xs) => xs.iter().map(|v| v.leaf_count()).sum(),
            TVal::Map(_, _, es) => es
                .iter()
                .map(|(k, v)| k.leaf_count() + v.leaf_count())
                .sum(),
            _ => 1,
        }
    }

    pub fn has_container(&self) -> bool {
        matches!(
            self,
            TVal::Struct(_) | TVal::List(..) | TVal::Set(..) | TVal::Map(..)
        )
    }

    /// Non-triviality rule used by the evidence counters: at least one
    /// container or nested struct and at least three leaf values.
    pub fn nontrivial(&self) -> bool {
        self.has_container() && self.leaf_count() >= 3
    }

    /// structural hash (shape + values) for distinct counting
    pub fn hash64(&self) -> u64 {
        let mut buf = Vec::new();
        self.hash_into(&mut buf);
        fnv1a(&buf)
    }

    fn hash_into(&self, b: &mut Vec<u8>) {
        b.push(self.tt() as u8);
        match self {
            TVal::Bool(x) => b.push(*x as u8),
            TVal::I8(x) => b.push(*x as u8),
            TVal::I16(x) => b.extend_from_slice(&x.to_le_bytes()),
            TVal::I32(x) => b.extend_from_slice(&x.to_le_bytes()),
            TVal::I64(x) => b.extend_from_slice(&x.to_le_bytes()),
            TVal::Double(x) => b.extend_from_slice(&x.to_le_bytes()),
            TVal::Binary(x) => {
                b.extend_from_slice(&(x.len() as u32).to_le_bytes());
                b.extend_from_slice(&fnv1a(x).to_le_bytes());
            }
            TVal::Uuid(x) => b.extend_from_slice(x),
            TVal::Struct(fs) => {
                b.extend_from_slice(&(fs.len() as u32).to_le_bytes());
                for (id, v) in fs {
                    b.extend_from_slice(&id.to_le_bytes());
                    v.hash_into(b);
                }
            }
            TVal::List(t, xs) | TVal::Set(t, xs) => {
                b.push(*t as u8);
                b.extend_from_slice(&(xs.len() as u32).to_le_bytes());
                for v in xs {
                    v.hash_into(b);
                }
            }
            TVal::Map(k, v, es) => {
                b.push(*k as u8);
                b.push(*v as u8);
                b.extend_from_slice(&(es.len() as u32).to_le_bytes());
                for (a, c) in es {
                    a.hash_into(b);
                    c.hash_into(b);
                }
            }
        }
    }

    /// short human-readable rendering for evidence samples / replay files
    pub fn render(&self, max: usize) -> String {
        let mut s = String::new();
        self.render_into(&mut s, max);
        if s.len() > max {
            let mut cut = max;
            while !s.is_char_boundary(cut) {
                cut -= 1;
            }
            s.truncate(cut);
            s.push('…');
        }
        s
    }

    fn render_into(&self, s: &mut String, max: usize) {
        if s.len() > max {
            return;
        }
        match self {
            TVal::Bool(x) => s.push_str(&format!("{}", x)),
            TVal::I8(x) => s.push_str(&format!("{}i8", x)),
            TVal::I16(x) => s.push_str(&format!("{}i16", x)),
            TVal::I32(x) => s.push_str(&format!("{}i32", x)),
            TVal::I64(x) => s.push_str(&format!("{}i64", x)),
            TVal::Double(x) => s.push_str(&format!("f64:{:#x}", x)),
            TVal::Binary(x) => {
                if x.len() <= 12 {
                    s.push_str(&format!("bin:{}", crate::rng::hex(x)))
                } else {
                    s.push_str(&format!("bin[{}]", x.len()))
                }
            }
            TVal::Uuid(x) => s.push_str(&format!("uuid:{}", crate::rng::hex(&x[..4]))),
            TVal::Struct(fs) => {
                s.push('{');
                for (i, (id, v)) in fs.iter().enumerate() {
                    if i > 0 {
                        s.push(',');
                    }
                    s.push_str(&format!("{}:", id));
                    v.render_into(s, max);
                }
                s.push('}');
            }
            TVal::List(t, xs) | TVal::Set(t, xs) => {
                s.push_str(if matches!(self, TVal::List(..)) {
                    "list<"
                } else {
                    "set<"
                });
                s.push_str(t.name());
                s.push_str(&format!(">[{}](", xs.len()));
                for (i, v) in xs.iter().enumerate().take(4) {
                    if i > 0 {
                        s.push(',');
                    }
                    v.render_into(s, max);
                }
                if xs.len() > 4 {
                    s.push_str(",..");
                }
                s.push(')');
            }
            TVal::Map(k, v, es) => {
                s.push_str(&format!("map<{},{}>[{}](", k.name(), v.name(), es.len()));
                for (i, (a, b)) in es.iter().enumerate().take(3) {
                    if i > 0 {
                        s.push(',');
                    }
                    a.render_into(s, max);
                    s.push_str("=>");
                    b.render_into(s, max);
                }
                if es.len() > 3 {
                    s.push_str(",..");
                }
                s.push(')');
            }
        }
    }
}

// ---------------------------------------------------------------------------
// generators

/// integer boundary classes shared by all generators
pub fn interesting_i64(rng: &mut Rng, bits: u32) -> i64 {
    let min = if bits == 64 {
        i64::MIN
    } else {
        -(1i64 << (bits - 1))
    };
    let max = if bits == 64 {
        i64::MAX
    } else {
        (1i64 << (bits - 1)) - 1
    };
    let v: i64 = match rng.below(10) {
        0 => 0,
        1 => *rng.pick(&[1, -1, 2, -2]),
        2 => min,
        3 => max,
        4 => {
            // ±2^k and 2^k±1
            let k = rng.below(bits as u64) as u32;
            let p = if k >= 63 { i64::MAX } else { 1i64 << k };
            match rng.below(6) {
                0 => p,
                1 => p.wrapping_sub(1),
                2 => p.wrapping_add(1),
                3 => p.wrapping_neg(),
                4 => p.wrapping_neg().wrapping_sub(1),
                _ => p.wrapping_neg().wrapping_add(1),
            }
        }
        5 => {
            // varint/zigzag length boundaries: zigzag(n) = 2^(7j) - 1 / 2^(7j)
            let j = 1 + rng.below(9) as u32;
            let z: u64 = if 7 * j >= 64 {
                u64::MAX
            } else {
                (1u64 << (7 * j)) - rng.below(2)
            };
            // un-zigzag
            ((z >> 1) as i64) ^ -((z & 1) as i64)
        }
        6 => rng.range(-130, 130),
        _ => rng.next_u64() as i64,
    };
    // clamp by wrapping into range
    if bits == 64 {
        v
    } else {
        let span = 1i128 << bits;
        let mut x = (v as i128 - min as i128).rem_euclid(span) + min as i128;
        if x > max as i128 {
            x = max as i128;
        }
        x as i64
    }
}

pub fn interesting_f64_bits(rng: &mut Rng) -> u64 {
    match rng.below(12) {
        0 => 0.0f64.to_bits(),
        1 => (-0.0f64).to_bits(),
        2 => 1.5f64.to_bits(),
        3 => f64::INFINITY.to_bits(),
        4 => f64::NEG_INFINITY.to_bits(),
        5 => 0x7ff8_0000_0000_0001, // quiet NaN with payload
        6 => 0x7ff0_0000_0000_0001, // signalling NaN
        7 => 0x0000_0000_0000_0001, // subnormal
        8 => f64::MAX.to_bits(),
        9 => f64::MIN_POSITIVE.to_bits(),
        10 => 0x0102_0304_0506_0708, // byte-order witness
        _ => rng.next_u64(),
    }
}

pub const STR_LENS: [usize; 12] = [0, 1, 2, 7, 127, 128, 129, 300, 4095, 4096, 4097, 16384];
pub const CONTAINER_SIZES: [usize; 8] = [0, 1, 2, 14, 15, 16, 127, 128];

#[derive(Clone, Debug)]
pub struct GenCfg {
    pub max_depth: usize,
    /// soft cap on the number of leaves in one top-level value
    pub leaf_budget: usize,
    /// allow the big (>= 4 KiB) strings
    pub big_strings: bool,
    /// strings only valid UTF-8 (needed where the code under test promises
    /// `String`)
    pub utf8_only: bool,
    pub max_container: usize,
}

impl Default for GenCfg {
    fn default() -> Self {
        GenCfg {
            max_depth: 5,
            leaf_budget: 200,
            big_strings: true,
            utf8_only: false,
            max_container: 128,
        }
    }
}

pub struct Gen<'a> {
    pub rng: &'a mut Rng,
    pub cfg: GenCfg,
    budget: isize,
}

impl<'a> Gen<'a> {
    pub fn new(rng: &'a mut Rng, cfg: GenCfg) -> Self {
        let budget = cfg.leaf_budget as isize;
        Gen { rng, cfg, budget }
    }

    pub fn reset_budget(&mut self) {
        self.budget = self.cfg.leaf_budget as isize;
    }

    pub fn gen_tt(&mut self, depth: usize) -> TT {
        if depth >= self.cfg.max_depth || self.budget <= 0 {
            *self.rng.pick(&SCALAR_TT)
        } else if self.rng.chance(1, 2) {
            *self.rng.pick(&SCALAR_TT)
        } else {
            *self.rng.pick(&[TT::Struct, TT::Map, TT::Set, TT::List])
        }
    }

    pub fn gen_binary(&mut self) -> Vec<u8> {
        let len = if self.rng.chance(1, 4) {
            let l = *self.rng.pick(&STR_LENS);
            if l >= 4095 && (!self.cfg.big_strings || self.budget < 20) {
                l % 200
            } else {
                if l >= 4095 {
                    self.budget -= 20;
                }
                l
            }
        } else {
            self.rng.usize_below(24)
        };
        if self.cfg.utf8_only || self.rng.chance(1, 2) {
            // valid UTF-8 including multi-byte
            let mut s = String::new();
            const ALPH: [&str; 10] = ["a", "Z", "0", " ", "é", "ß", "中", "🦀", "\n", "\""];
            while s.len() < len {
                let c = *self.rng.pick(&ALPH);
                if s.len() + c.len() > len {
                    s.push('x');
                } else {
                    s.push_str(c);
                }
            }
            s.into_bytes()
        } else {
            self.rng.bytes(len)
        }
    }

    pub fn gen_id(&mut self, last: i16) -> i16 {
        match self.rng.below(12) {
            0 => last.wrapping_add(1),
            1 => last.wrapping_add(14),
            2 => last.wrapping_add(15),
            3 => last.wrapping_add(16),
            4 => last, // same id twice
            5 => last.wrapping_sub(1 + self.rng.below(20) as i16),
            6 => i16::MAX,
            7 => i16::MIN,
            8 => -(self.rng.below(300) as i16) - 1,
            9 => 0,
            _ => last.wrapping_add(1 + self.rng.below(8) as i16),
        }
    }

    pub fn gen_scalar(&mut self, tt: TT) -> TVal {
        self.budget -= 1;
        match tt {
            TT::Bool => TVal::Bool(self.rng.chance(1, 2)),
            TT::I8 => TVal::I8(interesting_i64(self.rng, 8) as i8),
            TT::I16 => TVal::I16(interesting_i64(self.rng, 16) as i16),
            TT::I32 => TVal::I32(interesting_i64(self.rng, 32) as i32),
            TT::I64 => TVal::I64(interesting_i64(self.rng, 64)),
            TT::Double => TVal::Double(interesting_f64_bits(self.rng)),
            TT::Binary => TVal::Binary(self.gen_binary()),
            TT::Uuid => {
                let b = self.rng.bytes(16);
                let mut u = [0u8; 16];
                u.copy_from_slice(&b);
                TVal::Uuid(u)
            }
            _ => unreachable!(),
        }
    }

    fn gen_size(&mut self) -> usize {
        let s = if self.rng.chance(1, 3) {
            *self.rng.pick(&CONTAINER_SIZES)
        } else {
            self.rng.usize_below(5)
        };
        let cap = (self.budget.max(1) as usize).min(self.cfg.max_container);
        s.min(cap)
    }

    pub fn gen_struct(&mut self, depth: usize) -> TVal {
        let n = if self.rng.chance(1, 8) {
            0
        } else {
            1 + self.rng.usize_below(6)
        };
        let mut fs = Vec::with_capacity(n);
        let mut last = 0i16;
        // a fraction of structs use only small ascending ids (the common shape)
        let tame = self.rng.chance(1, 2);
        for _ in 0..n {
            let id = if tame {
                last.wrapping_add(1 + self.rng.below(3) as i16)
            } else {
                self.gen_id(last)
            };
            last = id;
            let tt = self.gen_tt(depth + 1);
            fs.push((id, self.gen_val(tt, depth + 1)));
        }
        TVal::Struct(fs)
    }

    pub fn gen_val(&mut self, tt: TT, depth: usize) -> TVal {
        match tt {
            TT::Struct => self.gen_struct(depth),
            TT::List | TT::Set => {
                let et = self.gen_tt(depth + 1);
                let n = self.gen_size();
                let xs = (0..n).map(|_| self.gen_val(et, depth + 1)).collect();
                if tt == TT::List {
                    TVal::List(et, xs)
                } else {
                    TVal::Set(et, xs)
                }
            }
            TT::Map => {
                let kt = self.gen_tt(depth + 1);
                let vt = self.gen_tt(depth + 1);
                let n = self.gen_size();
                let es = (0..n)
                    .map(|_| (self.gen_val(kt, depth + 1), self.gen_val(vt, depth + 1)))
                    .collect();
                TVal::Map(kt, vt, es)
            }
            s => self.gen_scalar(s),
        }
    }

    /// a random top-level value of a random wire type
    pub fn gen_top(&mut self) -> TVal {
        self.reset_budget();
        let tt = if self.rng.chance(2, 3) {
            TT::Struct
        } else {
            *self.rng.pick(&ALL_TT)
        };
        self.gen_val(tt, 0)
    }
}

/// Seed-independent directed values: every run includes these, so the coverage
/// floors are met by construction.
pub fn directed_values() -> Vec<(&'static str, TVal)> {
    use TVal::*;
    let mut v: Vec<(&'static str, TVal)> = Vec::new();
    let s = |x: &str| Binary(x.as_bytes().to_vec());
    v.push(("empty_struct", Struct(vec![])));
    v.push(("bool_alone_true", Struct(vec![(1, Bool(true))])));
    v.push(("bool_alone_false", Struct(vec![(1, Bool(false))])));
    v.push((
        "bool_first_last",
        Struct(vec![(1, Bool(true)), (2, I32(7)), (3, Bool(false))]),
    ));
    v.push((
        "sibling_after_nested",
        Struct(vec![
            (1, I32(1)),
            (5, Struct(vec![(1, I32(2)), (2, I32(3))])),
            (7, I32(4)),
            (8, Bool(true)),
        ]),
    ));
    v.push((
        "sibling_after_nested_deep",
        Struct(vec![
            (3, Struct(vec![(9, Struct(vec![(20, I8(1))])), (10, I16(2))])),
            (4, Binary(vec![1, 2, 3])),
            (6, Struct(vec![])),
            (7, Double(1.5f64.to_bits())),
        ]),
    ));
    v.push((
        "double_byte_order",
        Struct(vec![(1, Double(0x0102_0304_0506_0708)), (2, Double(1.5f64.to_bits()))]),
    ));
    v.push(("uuid_field", Struct(vec![(1, Uuid(*b"0123456789abcdef")), (2, I8(-1))])));
    v.push((
        "id_deltas",
        Struct(vec![
            (1, I8(1)),
            (15, I8(2)),  // delta 14
            (30, I8(3)),  // delta 15
            (46, I8(4)),  // delta 16
            (46, I8(5)),  // delta 0
            (40, I8(6)),  // descending
            (-5, I8(7)),  // negative
            (-4, I8(8)),  // delta 1 from a negative id
        ]),
    ));
    v.push((
        "id_extremes",
        Struct(vec![(i16::MAX, I8(1)), (i16::MIN, I8(2)), (i16::MAX, Bool(true)), (0, I8(3))]),
    ));
    // a struct / a list of structs under the largest field ids: ids inside the nested
    // struct start again from 0 (compact deltas are relative to the nested struct)
    v.push((
        "id_extremes_nested",
        Struct(vec![
            (32766, Struct(vec![(1, I8(1)), (2, I8(2)), (32767, I8(3))])),
            (i16::MAX, Struct(vec![(1, I8(4)), (15, Struct(vec![(1, Bool(true))]))])),
        ]),
    ));
    v.push((
        "id_extremes_nested",
        Struct(vec![(i16::MAX, List(TT::Struct, vec![Struct(vec![(1, I8(1))]), Struct(vec![(2, I64(5)), (3, Bool(false))])])), (i16::MAX, Map(TT::I8, TT::Struct, vec![(I8(1), Struct(vec![(7, I8(1))]))]))]),
    ));
    for n in [0usize, 1, 14, 15, 16, 127, 128] {
        v.push((
            "list_sizes",
            Struct(vec![(1, List(TT::I32, (0..n).map(|i| I32(i as i32 * 77 - 5)).collect()))]),
        ));
        v.push((
            "set_sizes",
            Struct(vec![(1, Set(TT::I16, (0..n).map(|i| I16(i as i16)).collect()))]),
        ));
        v.push((
            "map_sizes",
            Struct(vec![(
                2,
                Map(
                    TT::I32,
                    TT::Binary,
                    (0..n).map(|i| (I32(i as i32), s(&format!("v{}", i)))).collect(),
                ),
            )]),
        ));
    }
    v.push((
        "list_bool",
        Struct(vec![(1, List(TT::Bool, vec![Bool(true), Bool(false), Bool(true)])), (2, Bool(false))]),
    ));
    v.push((
        "map_bool_keys",
        Map(TT::Bool, TT::Bool, vec![(Bool(true), Bool(false)), (Bool(false), Bool(true))]),
    ));
    v.push((
        "map_key_kinds",
        Struct(vec![
            (1, Map(TT::I8, TT::I64, vec![(I8(-3), I64(i64::MIN))])),
            (2, Map(TT::Binary, TT::Uuid, vec![(s("k"), Uuid([7; 16]))])),
            (3, Map(TT::Double, TT::Double, vec![(Double(0), Double(1))])),
            (4, Map(TT::Struct, TT::List, vec![(Struct(vec![(1, I32(1))]), List(TT::I8, vec![I8(1)]))])),
            (5, Map(TT::I64, TT::Map, vec![(I64(1), Map(TT::I16, TT::I16, vec![(I16(1), I16(2))]))])),
            (6, Map(TT::Uuid, TT::Set, vec![(Uuid([1; 16]), Set(TT::Binary, vec![s("a"), s("b")]))])),
            (7, Map(TT::I32, TT::I32, vec![])),
        ]),
    ));
    v.push((
        "list_of_structs",
        List(
            TT::Struct,
            vec![
                Struct(vec![(1, I32(1)), (2, Bool(true))]),
                Struct(vec![]),
                Struct(vec![(2, Struct(vec![(1, Bool(false))])), (3, I64(-1))]),
            ],
        ),
    ));
    v.push((
        "nested_containers",
        List(
            TT::List,
            vec![
                List(TT::Map, vec![Map(TT::I32, TT::Set, vec![(I32(1), Set(TT::I8, vec![I8(1), I8(2)]))])]),
                List(TT::Map, vec![]),
            ],
        ),
    ));
    for len in [0usize, 1, 127, 128, 4095, 4096, 4097, 16384] {
        let payload: Vec<u8> = (0..len).map(|i| b'a' + (i % 23) as u8).collect();
        v.push((
            "string_lens",
            Struct(vec![(1, Binary(payload.clone())), (2, I32(len as i32)), (3, Binary(payload))]),
        ));
    }
    v.push(("binary_non_utf8", Struct(vec![(1, Binary(vec![0xff, 0xfe, 0x00, 0x80]))])));
    for x in [0i64, 1, -1, 63, 64, -64, -65, 8191, 8192, i32::MAX as i64, i32::MIN as i64] {
        v.push(("i32_bounds", Struct(vec![(1, I32(x as i32)), (2, I64(x)), (3, I16(x as i16))])));
    }
    v.push(("i64_bounds", Struct(vec![(1, I64(i64::MAX)), (2, I64(i64::MIN))])));
    // scalars at top level
    v.push(("top_i32", I32(-123456)));
    v.push(("top_bool", Bool(true)));
    v.push(("top_double", Double((-2.25f64).to_bits())));
    v.push(("top_binary", s("hello")));
    v.push(("top_uuid", Uuid([0xab; 16])));
    v.push(("top_set", Set(TT::Binary, vec![s("x"), s("yy")])));
    v
}

/// struct nested to exactly `levels` levels (a scalar counts as level 1, so
/// `nested_struct(1)` is not a struct; levels >= 2 => levels-1 structs around an i8)
pub fn nested_struct(levels: usize) -> TVal {
    let mut v = TVal::I8(1);
    for _ in 1..levels {
        v = TVal::Struct(vec![(1, v)]);
    }
    v
}

pub fn nested_list(levels: usize) -> TVal {
    let mut v = TVal::I8(1);
    let mut t = TT::I8;
    for _ in 1..levels {
        v = TVal::List(t, vec![v]);
        t = TT::List;
    }
    v
}

pub fn nested_map(levels: usize) -> TVal {
    let mut v = TVal::I8(1);
    let mut t = TT::I8;
    for _ in 1..levels {
        v = TVal::Map(TT::I8, t, vec![(TVal::I8(0), v)]);
        t = TT::Map;
    }
    v
}
