//! Fault operators over a valid encoding and its layout map (DESIGN 4.4).
//! Enumerated, not sampled: `enumerate` yields every fault of every operator
//! for one base message.

use crate::rng::Rng;
use crate::tcodec::{LK, Layout, Proto, put_uvarint};

#[derive(Clone, Debug)]
pub struct Fault {
    /// operator: trunc | bitflip | len | count | typecode
    pub kind: &'static str,
    /// position class for distinct counting (layout kind at the offset)
    pub at: &'static str,
    pub desc: String,
    pub bytes: Vec<u8>,
    /// true if this input is a strict prefix of the base message
    pub strict_prefix: bool,
}

fn kind_at(layout: &Layout, off: usize) -> &'static str {
    for it in &layout.items {
        if off >= it.off && off < it.off + it.len {
            return match it.kind {
                LK::FieldType => "field_type",
                LK::FieldId => "field_id",
                LK::StrLen => "str_len",
                LK::Count => "count",
                LK::ElemType => "elem_type",
                LK::MapTypes => "map_types",
                LK::Stop => "stop",
                LK::Value => "value",
            };
        }
    }
    "payload"
}

fn boundary_values(remaining: usize) -> Vec<(String, i64)> {
    let r = remaining as i64;
    vec![
        ("-1".into(), -1),
        ("0".into(), 0),
        ("1".into(), 1),
        ("rem-1".into(), r - 1),
        ("rem".into(), r),
        ("rem+1".into(), r + 1),
        ("i32max".into(), i32::MAX as i64),
        ("u32max".into(), u32::MAX as i64),
        ("2^24".into(), 1 << 24),
    ]
}

pub struct FaultCfg {
    /// all bits for messages up to this many bytes; above: all bits of header
    /// bytes + `sample_bits` payload bits
    pub all_bits_upto: usize,
    pub sample_bits: usize,
    pub truncations: bool,
}

impl Default for FaultCfg {
    fn default() -> Self {
        FaultCfg {
            all_bits_upto: 256,
            sample_bits: 256,
            truncations: true,
        }
    }
}

pub fn enumerate(proto: Proto, base: &[u8], layout: &Layout, cfg: &FaultCfg, rng: &mut Rng) -> Vec<Fault> {
    let mut out = Vec::new();
    // truncation at every offset
    if cfg.truncations {
        for n in 0..base.len() {
            out.push(Fault {
                kind: "trunc",
                at: kind_at(layout, n),
                desc: format!("trunc@{}", n),
                bytes: base[..n].to_vec(),
                strict_prefix: true,
            });
        }
    }
    // bit flips
    if base.len() <= cfg.all_bits_upto {
        for i in 0..base.len() {
            for b in 0..8 {
                let mut m = base.to_vec();
                m[i] ^= 1 << b;
                out.push(Fault {
                    kind: "bitflip",
                    at: kind_at(layout, i),
                    desc: format!("flip@{}.{}", i, b),
                    bytes: m,
                    strict_prefix: false,
                });
            }
        }
    } else {
        for it in &layout.items {
            if matches!(it.kind, LK::Value) {
                continue;
            }
            for i in it.off..(it.off + it.len).min(base.len()) {
                for b in 0..8 {
                    let mut m = base.to_vec();
                    m[i] ^= 1 << b;
                    out.push(Fault {
                        kind: "bitflip",
                        at: kind_at(layout, i),
                        desc: format!("flip@{}.{}", i, b),
                        bytes: m,
                        strict_prefix: false,
                    });
                }
            }
        }
        for _ in 0..cfg.sample_bits {
            let i = rng.usize_below(base.len());
            let b = rng.usize_below(8);
            let mut m = base.to_vec();
            m[i] ^= 1 << b;
            out.push(Fault {
                kind: "bitflip",
                at: kind_at(layout, i),
                desc: format!("flip@{}.{}", i, b),
                bytes: m,
                strict_prefix: false,
            });
        }
    }
    // length / count fields
    for it in &layout.items {
        match it.kind {
            LK::StrLen | LK::Count => {
                let after = it.off + it.len;
                let remaining = base.len().saturating_sub(after);
                for (name, val) in boundary_values(remaining) {
                    let mut m = base[..it.off].to_vec();
                    match proto {
                        Proto::Binary => m.extend_from_slice(&(val as i32).to_be_bytes()),
                        Proto::BinaryLe => m.extend_from_slice(&(val as i32).to_le_bytes()),
                        Proto::Compact => {
                            put_uvarint(&mut m, val as u32 as u64);
                        }
                    }
                    m.extend_from_slice(&base[after..]);
                    out.push(Fault {
                        kind: if it.kind == LK::StrLen { "len" } else { "count" },
                        at: if it.kind == LK::StrLen { "str_len" } else { "count" },
                        desc: format!("{}@{}={}", if it.kind == LK::StrLen { "len" } else { "count" }, it.off, name),
                        bytes: m,
                        strict_prefix: false,
                    });
                }
                if proto == Proto::Compact {
                    // over-long varints: 5, 6 and 10 continuation bytes
                    for n in [5usize, 6, 10] {
                        let mut m = base[..it.off].to_vec();
                        m.extend(std::iter::repeat(0xffu8).take(n));
                        m.push(0x01);
                        m.extend_from_slice(&base[after..]);
                        out.push(Fault {
                            kind: if it.kind == LK::StrLen { "len" } else { "count" },
                            at: "overlong_varint",
                            desc: format!("overlong{}@{}", n, it.off),
                            bytes: m,
                            strict_prefix: false,
                        });
                    }
                }
            }
            LK::ElemType if proto == Proto::Compact => {
                // short-form list header: rewrite as long form with boundary counts
                let h = base[it.off];
                if h >> 4 != 15 {
                    let after = it.off + 1;
                    let remaining = base.len().saturating_sub(after);
                    for (name, val) in boundary_values(remaining) {
                        let mut m = base[..it.off].to_vec();
                        m.push(0xF0 | (h & 0x0f));
                        put_uvarint(&mut m, val as u32 as u64);
                        m.extend_from_slice(&base[after..]);
                        out.push(Fault {
                            kind: "count",
                            at: "count",
                            desc: format!("count@{}={}", it.off, name),
                            bytes: m,
                            strict_prefix: false,
                        });
                    }
                }
            }
            _ => {}
        }
    }
    // type codes: every other code
    for it in &layout.items {
        match (proto, it.kind) {
            (Proto::Binary | Proto::BinaryLe, LK::FieldType | LK::ElemType | LK::MapTypes) => {
                for code in [0u8, 1, 2, 3, 4, 5, 6, 7, 8, 9, 10, 11, 12, 13, 14, 15, 16, 17, 0x7f, 0x80, 0xff] {
                    if code == base[it.off] {
                        continue;
                    }
                    let mut m = base.to_vec();
                    m[it.off] = code;
                    out.push(Fault {
                        kind: "typecode",
                        at: kind_at(layout, it.off),
                        desc: format!("type@{}={}", it.off, code),
                        bytes: m,
                        strict_prefix: false,
                    });
                }
            }
            (Proto::Compact, LK::FieldType | LK::ElemType) => {
                for nib in 0u8..16 {
                    if nib == base[it.off] & 0x0f {
                        continue;
                    }
                    let mut m = base.to_vec();
                    m[it.off] = (m[it.off] & 0xf0) | nib;
                    out.push(Fault {
                        kind: "typecode",
                        at: kind_at(layout, it.off),
                        desc: format!("nibble@{}={}", it.off, nib),
                        bytes: m,
                        strict_prefix: false,
                    });
                }
            }
            (Proto::Compact, LK::MapTypes) => {
                for nib in 0u8..16 {
                    for hi in [false, true] {
                        let mut m = base.to_vec();
                        if hi {
                            m[it.off] = (m[it.off] & 0x0f) | (nib << 4);
                        } else {
                            m[it.off] = (m[it.off] & 0xf0) | nib;
                        }
                        if m[it.off] == base[it.off] {
                            continue;
                        }
                        out.push(Fault {
                            kind: "typecode",
                            at: "map_types",
                            desc: format!("mapnibble@{}={}{}", it.off, if hi { "k" } else { "v" }, nib),
                            bytes: m,
                            strict_prefix: false,
                        });
                    }
                }
            }
            _ => {}
        }
    }
    out
}

/// unstructured inputs: random bytes, random bytes behind a valid prefix,
/// splices of two valid messages
pub fn unstructured(rng: &mut Rng, a: &[u8], b: &[u8], n: usize) -> Vec<Fault> {
    let mut out = Vec::new();
    for i in 0..n {
        let bytes = match i % 4 {
            0 => {
                let l = rng.usize_below(96);
                rng.bytes(l)
            }
            1 => {
                let cut = if a.is_empty() { 0 } else { rng.usize_below(a.len()) };
                let mut m = a[..cut].to_vec();
                let l = rng.usize_below(32);
                m.extend(rng.bytes(l));
                m
            }
            2 => {
                let ca = if a.is_empty() { 0 } else { rng.usize_below(a.len()) };
                let cb = if b.is_empty() { 0 } else { rng.usize_below(b.len()) };
                let mut m = a[..ca].to_vec();
                m.extend_from_slice(&b[cb..]);
                m
            }
            _ => {
                let mut m = a.to_vec();
                m.extend_from_slice(b);
                m
            }
        };
        out.push(Fault {
            kind: "unstructured",
            at: "random",
            desc: format!("unstructured#{}", i),
            bytes,
            strict_prefix: false,
        });
    }
    out
}
