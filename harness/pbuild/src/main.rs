//! Thin wrapper around `pilota_build::Builder`; always run as a CHILD process so
//! that a panic / abort / exit(1) of the builder is an observation.
//!
//! pbuild --lang thrift|proto --out FILE|DIR [--split] [--keep] [--no-change-case]
//!        [--ignore-unused] [--workspace] [--include DIR]... IDL...

use std::path::PathBuf;

use pilota_build::{IdlService, Output};

fn main() {
    let mut lang = "thrift".to_string();
    let mut out: Option<PathBuf> = None;
    let mut split = false;
    let mut keep = false;
    let mut change_case = true;
    let mut ignore_unused = false;
    let mut workspace = false;
    let mut includes: Vec<PathBuf> = vec![];
    let mut idls: Vec<PathBuf> = vec![];
    let mut keep_also: Vec<PathBuf> = vec![];
    let mut it = std::env::args().skip(1);
    while let Some(a) = it.next() {
        match a.as_str() {
            "--lang" => lang = it.next().expect("--lang"),
            "--out" => out = Some(PathBuf::from(it.next().expect("--out"))),
            "--split" => split = true,
            "--keep" => keep = true,
            "--no-change-case" => change_case = false,
            "--ignore-unused" => ignore_unused = true,
            "--workspace" => workspace = true,
            "--keep-also" => keep_also.push(PathBuf::from(it.next().expect("--keep-also"))),
            "--include" => includes.push(PathBuf::from(it.next().expect("--include"))),
            other => idls.push(PathBuf::from(other)),
        }
    }
    let out = out.expect("--out required");
    let services: Vec<IdlService> = idls.iter().map(|p| IdlService::from_path(p.clone())).collect();
    let output = if workspace { Output::Workspace(out) } else { Output::File(out) };
    match lang.as_str() {
        "thrift" => {
            let mut b = pilota_build::Builder::thrift()
                .ignore_unused(ignore_unused)
                .split_generated_files(split)
                .change_case(change_case);
            if !includes.is_empty() {
                b = b.include_dirs(includes);
            }
            if keep {
                let mut k = idls.clone();
                k.extend(keep_also.clone());
                b = b.keep_unknown_fields(k);
            }
            b.compile_with_config(services, output);
        }
        "proto" => {
            let mut b = pilota_build::Builder::protobuf()
                .ignore_unused(ignore_unused)
                .split_generated_files(split)
                .change_case(change_case);
            b = b.include_dirs(includes);
            if keep {
                b = b.keep_unknown_fields(idls.clone());
            }
            b.compile_with_config(services, output);
        }
        other => {
            eprintln!("unknown --lang {}", other);
            std::process::exit(2);
        }
    }
}
