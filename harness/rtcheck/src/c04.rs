//! C04 (runtime part) — reported size equals bytes written, for the
//! hand-written length protocols, in three usage patterns.

use monitors::driver::{Check, deaths_as_violations, sub_mark};
use monitors::evidence::{Ctx, Frag, Report};
use monitors::run::{Death, catch};
use refmodel::tval::{TVal, directed_values};
use serde_json::{Value, json};

use crate::c01::{gen_seq, vals_from_json, vals_to_json};
use pcodec::codecs::{ALL_BK, ALL_WP, BK, WP, len_fresh, write_seq, write_seq_sized};
use pcodec::interp::Ops;

pub struct C04;

fn check_cfg(wp: WP, bk: BK, vals: &[TVal], frag: &mut Frag, choice: u64) -> Result<(), (String, String)> {
    // pattern 1: fresh length instance vs fresh writer, value by value
    for (i, v) in vals.iter().enumerate() {
        let mut lops = Ops::default();
        lops.choice = choice.wrapping_add(i as u64);
        sub_mark(&format!("{}/{} len_fresh", wp.name(), bk.name()));
        let n = catch(|| len_fresh(wp, v, &mut lops));
        lops.flush_into(frag, wp.name());
        let n = match n {
            Ok(n) => n,
            Err(p) => {
                return Err((
                    format!("panic|len|{}|{}", p.site(), p.class()),
                    format!("length walk panicked at {}: {}", p.location, p.message),
                ));
            }
        };
        let mut wops = Ops::default();
        wops.choice = choice.wrapping_add(i as u64);
        let w = catch(|| write_seq(wp, bk, std::slice::from_ref(v), &mut wops));
        let w = match w {
            Ok(Ok(w)) => w,
            Ok(Err(e)) => return Err(("write-error".into(), e)),
            Err(p) => {
                return Err((
                    format!("panic|write|{}|{}", p.site(), p.class()),
                    format!("writer panicked at {}: {}", p.location, p.message),
                ));
            }
        };
        frag.count(&format!("{}.fresh_pairs", wp.name()));
        if n != w.bytes.len() {
            return Err((
                format!("size-mismatch|fresh|{}", v.tt().name()),
                format!("size() said {} but encode wrote {} bytes for {}", n, w.bytes.len(), v.render(200)),
            ));
        }
    }
    // pattern 2+3: the SAME instance sizes each value and then writes it;
    // value k+1 is sized after value k was written
    let mut sizes = Some(Vec::new());
    let mut wops = Ops::default();
    wops.choice = choice;
    sub_mark(&format!("{}/{} size-then-write", wp.name(), bk.name()));
    let w = catch(|| write_seq_sized(wp, bk, vals, &mut wops, &mut sizes));
    wops.flush_into(frag, wp.name());
    let w = match w {
        Ok(Ok(w)) => w,
        Ok(Err(e)) => return Err(("write-error|same-instance".into(), e)),
        Err(p) => {
            return Err((
                format!("panic|size-then-write|{}|{}", p.site(), p.class()),
                format!("panicked at {}: {}", p.location, p.message),
            ));
        }
    };
    let sizes = sizes.unwrap();
    let mut prev = 0;
    for (i, end) in w.ends.iter().enumerate() {
        let written = end - prev;
        prev = *end;
        frag.count(&format!("{}.same_instance_pairs", wp.name()));
        if sizes.get(i).copied() != Some(written) {
            let which = if i == 0 { "first" } else { "following" };
            return Err((
                format!("size-mismatch|same-instance|{}", which),
                format!(
                    "value {}: size() on the writing instance said {:?}, encode wrote {}",
                    i,
                    sizes.get(i),
                    written
                ),
            ));
        }
    }
    Ok(())
}

fn check_seq(vals: &[TVal], frag: &mut Frag, choice: u64, idx: u64) {
    frag.eval();
    if vals.iter().any(|v| v.nontrivial()) {
        let mut h = 0u64;
        for v in vals {
            h = h.rotate_left(7) ^ v.hash64();
        }
        frag.distinct(h);
    }
    for wp in ALL_WP {
        let mut fails = vec![];
        for bk in ALL_BK {
            if let Err(e) = check_cfg(wp, bk, vals, frag, choice) {
                fails.push((bk, e));
            }
        }
        if fails.is_empty() {
            continue;
        }
        let same = fails.len() == 3 && fails.iter().all(|f| f.1.0 == fails[0].1.0);
        for (bk, (k, what)) in fails.iter().take(if same { 1 } else { 3 }) {
            let bkname = if same { "all" } else { bk.name() };
            frag.violation(
                &format!("c04|{}|bk={}|{}", wp.name(), bkname, k),
                &format!("{} on {}: {}", wp.name(), bkname, what),
                json!({"idx": idx, "wp": wp.name(), "bk": bkname, "choice": choice, "vals": vals_to_json(vals)}),
            );
        }
    }
}

impl Check for C04 {
    fn id(&self) -> &'static str {
        "c04"
    }
    fn rule(&self) -> String {
        "cases = the C01 value-tree sequences; per (protocol x buffer kind): (1) size from a fresh length-protocol instance vs bytes a fresh writer produces, value by value; (2) message envelopes: message_begin_len + message_end_len vs bytes written, for names of 0..4097 bytes x sequence ids at every power of two (both signs) x 4 message types; (3) size taken from the SAME protocol instance that then writes the value, value k+1 sized after value k was written; distinct = structural hashes of sequences with a non-trivial value. The generated-type part of C04 (Message::size vs Message::encode) runs in the generated-code checks when registered.".into()
    }
    fn ncases(&self, ctx: &Ctx) -> u64 {
        2 * directed_values().len() as u64 + ctx.scale(12_000, 1_000_000)
    }
    fn run_case(&self, ctx: &Ctx, idx: u64, frag: &mut Frag) {
        if idx == 0 {
            crate::c03::envelope_sizes(frag);
        }
        let vals = gen_seq(ctx, idx, 0xC04);
        if frag.samples.is_empty() && idx % 89 == 5 {
            frag.sample(json!({"idx": idx, "values": vals.iter().map(|v| v.render(160)).collect::<Vec<_>>()}));
        }
        check_seq(&vals, frag, ctx.seed ^ idx, idx);
    }
    fn replay(&self, _ctx: &Ctx, case: &Value, frag: &mut Frag) -> bool {
        if case.get("envelope").is_some() {
            crate::c03::envelope_sizes(frag);
            return true;
        }
        match vals_from_json(&case["vals"]) {
            Some(vals) => {
                check_seq(&vals, frag, case["choice"].as_u64().unwrap_or(0), case["idx"].as_u64().unwrap_or(0));
                true
            }
            None => false,
        }
    }
    fn finish(&self, _ctx: &Ctx, r: &mut Report, deaths: &[Death]) {
        deaths_as_violations(r, deaths);
        r.assume("bytes written are counted at the buffer (flattened LinkedBytes incl. zero-copy nodes; unchecked writer: committed bytes + index)");
        for wp in ALL_WP {
            let n = wp.name();
            for op in [
                "struct_begin_len", "struct_end_len", "field_begin_len", "field_end_len", "field_stop_len",
                "bool_len", "i8_len", "i16_len", "i32_len", "i64_len", "double_len", "bytes_len",
                "bytes_vec_len", "string_len", "faststr_len", "uuid_len", "list_begin_len", "set_begin_len",
                "map_begin_len",
            ] {
                r.floor(&format!("{}.{}", n, op), 10);
            }
            for shape in ["neg_or_desc_id", "bool_field", "container_14", "container_15", "container_16", "str_127", "str_128", "long_form_header"] {
                r.floor(&format!("{}.{}", n, shape), 1);
            }
            if wp != WP::BinaryLe {
                r.floor(&format!("{}.envelope_len", n), 500);
            }
            r.floor(&format!("{}.fresh_pairs", n), 1000);
            r.floor(&format!("{}.same_instance_pairs", n), 1000);
        }
    }
}
