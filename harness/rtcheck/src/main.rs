//! Runtime checks on pilota's hand-written Thrift codecs.

#[cfg(not(miri))]
#[global_allocator]
static ALLOC: monitors::alloc::Counting = monitors::alloc::Counting;

mod c01;
mod c03;
mod c04;
mod c07;
mod c09;
mod c11;
mod c12;

fn main() {
    let checks: Vec<&dyn monitors::driver::Check> = vec![&c01::C01, &c03::C03, &c04::C04, &c07::C07, &c09::C09, &c11::C11, &c12::C12];
    std::process::exit(monitors::driver::main_with(&checks));
}
