//! C11 (runtime part) — the unchecked binary codec equals the checked one
//! within its contract: same bytes, same values, same consumed count, nothing
//! outside the window it was given.

use bytes::Bytes;
use monitors::driver::{Check, sub_mark};
use monitors::evidence::{Ctx, Frag, Report};
use monitors::run::{Death, catch, death_json};
use pilota::thrift::{TInputProtocol, TType};
use refmodel::rng::hex;
use refmodel::tcodec::{Proto, encode};
use refmodel::tval::{TT, TVal, directed_values};
use serde_json::{Value, json};

use crate::c01::{gen_seq, vals_from_json, vals_to_json};
use pcodec::codecs::{ALL_BK, BK, Reader, WP, binary_size, read_seq, write_seq, write_seq_unchecked_guarded};
use pcodec::interp::{Ops, ReadErr, from_ttype, read_val};
use pcodec::oracle::diff;

pub struct C11;

/// "reader schema" that knows only the even field ids: odd ids are skipped.
/// Applied recursively to known struct-typed fields.
fn read_partial(r: &mut Reader, out_skips: &mut Vec<usize>, ops: &mut Ops, depth: usize) -> Result<TVal, ReadErr> {
    r.p().read_struct_begin()?;
    let mut fs = vec![];
    loop {
        let fi = r.p().read_field_begin()?;
        if fi.field_type == TType::Stop {
            break;
        }
        let id = fi.id.unwrap_or(0);
        let known = id % 2 == 0;
        if !known {
            let n = r.p().skip(fi.field_type)?;
            out_skips.push(n);
        } else {
            let ft = from_ttype(fi.field_type).ok_or_else(|| ReadErr::BadType(format!("{:?}", fi.field_type)))?;
            let v = if ft == TT::Struct && depth < 6 {
                read_partial(r, out_skips, ops, depth + 1)?
            } else {
                read_val(r.p(), ft, None, ops)?
            };
            fs.push((id, v));
        }
        r.p().read_field_end()?;
    }
    r.p().read_struct_end()?;
    Ok(TVal::Struct(fs))
}

fn partial(wp: WP, bytes: &[u8]) -> (Result<TVal, String>, Vec<usize>, usize) {
    let mut b = Bytes::copy_from_slice(bytes);
    let mut r = Reader::new(wp, &mut b);
    let mut skips = vec![];
    let mut ops = Ops::default();
    let v = read_partial(&mut r, &mut skips, &mut ops, 0).map_err(|e| format!("{:?}", e));
    let c = r.consumed();
    (v, skips, c)
}

fn check_seq(vals: &[TVal], frag: &mut Frag, choice: u64, idx: u64) {
    frag.eval();
    if vals.iter().any(|v| v.nontrivial()) {
        let mut h = 0u64;
        for v in vals {
            h = h.rotate_left(7) ^ v.hash64();
        }
        frag.distinct(h);
    }
    let case = |bk: &str| json!({"idx": idx, "bk": bk, "choice": choice, "vals": vals_to_json(vals)});
    let mut sops = Ops::default();
    sops.choice = choice;
    let size = binary_size(vals, &mut sops);
    // ---- writer differential + guard regions
    for bk in ALL_BK {
        let mut ops = Ops::default();
        ops.choice = choice;
        let checked = match catch(|| write_seq(WP::Binary, bk, vals, &mut ops)) {
            Ok(Ok(w)) => w,
            _ => {
                frag.masked("checked-writer-failed(C01)");
                continue;
            }
        };
        if checked.bytes.len() != size {
            frag.masked("size-mismatch-in-checked-codec(C04)");
            continue;
        }
        let mut uops = Ops::default();
        uops.choice = choice;
        sub_mark(&format!("unchecked-writer/{} window={}", bk.name(), size));
        let r = catch(|| write_seq_unchecked_guarded(bk, vals, size, &mut uops));
        uops.flush_into(frag, "unchecked");
        frag.count(&format!("writer.{}", bk.name()));
        match r {
            Err(p) => frag.violation(&format!("c11|writer|{}|panic|{}|{}", bk.name(), p.site(), p.class()), &format!("unchecked writer panicked at {}: {}", p.location, p.message), case(bk.name())),
            Ok(Err(e)) => frag.violation(&format!("c11|writer|{}|error", bk.name()), &e, case(bk.name())),
            Ok(Ok((w, g))) => {
                if !g.head_intact || !g.tail_intact {
                    frag.violation(
                        &format!("c11|writer|{}|wrote-outside-window", bk.name()),
                        &format!("guard bytes around the exact-size window ({} bytes) were modified (head intact: {}, tail intact: {})", size, g.head_intact, g.tail_intact),
                        case(bk.name()),
                    );
                }
                if w.bytes != checked.bytes {
                    let at = w.bytes.iter().zip(checked.bytes.iter()).position(|(a, b)| a != b).unwrap_or(w.bytes.len().min(checked.bytes.len()));
                    frag.violation(
                        &format!("c11|writer|{}|bytes-differ", bk.name()),
                        &format!("unchecked writer produced {} bytes, checked {}; first difference at offset {}", w.bytes.len(), checked.bytes.len(), at),
                        case(bk.name()),
                    );
                }
                if w.zc_nodes > 0 {
                    frag.add("writer.zero_copy_rederivations", w.zc_nodes as u64);
                }
                if w.zc_nodes != checked.zc_nodes {
                    frag.count("writer.zero_copy_node_count_differs(lead-only)");
                }
            }
        }
    }
    // ---- reader differential on reference-encoded and on pilota-written bytes
    let mut inputs: Vec<(&str, Vec<u8>)> = vec![];
    let mut refb = vec![];
    for v in vals {
        refb.extend(encode(Proto::Binary, v));
    }
    inputs.push(("reference", refb));
    let tts: Vec<TT> = vals.iter().map(|v| v.tt()).collect();
    for (src, b) in &inputs {
        let mut o1 = Ops::default();
        o1.choice = choice;
        let c = catch(|| read_seq(WP::Binary, b, &tts, vals, &mut o1));
        let mut o2 = Ops::default();
        o2.choice = choice;
        sub_mark(&format!("unchecked-reader {} {}", src, hex(&b[..b.len().min(64)])));
        let u = catch(|| read_seq(WP::Unchecked, b, &tts, vals, &mut o2));
        o2.flush_into(frag, "unchecked");
        frag.count("reader.sequences");
        match (c, u) {
            (Ok(c), Ok(u)) => {
                for i in 0..vals.len() {
                    match (c.get(i), u.get(i)) {
                        (Some(cr), Some(ur)) => match (&cr.val, &ur.val) {
                            (Ok(cv), Ok(uv)) => {
                                if let Some(d) = diff(cv, uv) {
                                    frag.violation(&format!("c11|reader|value|{}", d.class), &format!("value {}: checked {} vs unchecked {} at {}", i, d.expected, d.got, d.path), case("n/a"));
                                } else if cr.pos != ur.pos {
                                    frag.violation("c11|reader|consumed", &format!("value {}: checked consumed {} bytes, unchecked accounts for {}", i, cr.pos, ur.pos), case("n/a"));
                                }
                            }
                            (Err(_), _) => frag.masked("checked-reader-rejected-valid-input(C01/C03)"),
                            (Ok(_), Err(e)) => frag.violation("c11|reader|unchecked-rejected", &format!("value {}: {:?}", i, e), case("n/a")),
                        },
                        _ => frag.violation("c11|reader|missing-value", &format!("value {} not produced by both readers", i), case("n/a")),
                    }
                }
            }
            (Err(_), _) => frag.masked("checked-reader-panicked(C01)"),
            (_, Err(p)) => frag.violation(&format!("c11|reader|panic|{}|{}", p.site(), p.class()), &format!("unchecked reader panicked at {}: {}", p.location, p.message), case("n/a")),
        }
    }
    // ---- skipping unknown fields: a reader that only knows even ids
    for v in vals {
        if let TVal::Struct(_) = v {
            let b = encode(Proto::Binary, v);
            let c = catch(|| partial(WP::Binary, &b));
            sub_mark(&format!("unchecked-partial {}", hex(&b[..b.len().min(64)])));
            let u = catch(|| partial(WP::Unchecked, &b));
            frag.count("reader.partial_structs");
            match (c, u) {
                (Ok((cv, cs, cp)), Ok((uv, us, up))) => {
                    frag.add("reader.unknown_fields_skipped", us.len() as u64);
                    if cv.is_err() {
                        frag.masked("checked-partial-reader-failed");
                        continue;
                    }
                    if cv != uv {
                        frag.violation("c11|partial|value", &format!("known fields differ: checked {:?} unchecked {:?}", cv.as_ref().map(|t| t.render(100)), uv.as_ref().map(|t| t.render(100))), json!({"idx": idx, "vals": vals_to_json(std::slice::from_ref(v))}));
                    } else if cs != us {
                        frag.violation("c11|partial|skip-count", &format!("skip() counts differ: checked {:?} unchecked {:?}", cs, us), json!({"idx": idx, "vals": vals_to_json(std::slice::from_ref(v))}));
                    } else if cp != up || cp != b.len() {
                        frag.violation("c11|partial|consumed", &format!("consumed: checked {} unchecked {} of {}", cp, up, b.len()), json!({"idx": idx, "vals": vals_to_json(std::slice::from_ref(v))}));
                    }
                }
                (Err(_), _) => frag.masked("checked-partial-reader-panicked"),
                (_, Err(p)) => frag.violation(&format!("c11|partial|panic|{}|{}", p.site(), p.class()), &format!("{} {}", p.location, p.message), json!({"idx": idx, "vals": vals_to_json(std::slice::from_ref(v))})),
            }
        }
    }
}

impl Check for C11 {
    fn id(&self) -> &'static str {
        "c11"
    }
    fn rule(&self) -> String {
        "cases = the C01 value-tree sequences. Writer: the unchecked writer gets an output window of EXACTLY the size the checked length protocol reports, embedded between pattern-filled guard regions, on BytesMut / LinkedBytes zero-copy off / on (payloads 4095/4096/4097/16384 straddle the zero-copy threshold); its bytes must equal the checked writer's and the guards must be intact; dev build, so std ub_checks abort on any get_unchecked outside the slice (worker death = violation). Reader: unchecked vs checked on reference-encoded input: same values, same consumed count; and a partial reader that skips every odd field id (iterative skipper vs recursive skipper): same known fields, same skip counts, same end position. distinct = structural hashes of sequences with a non-trivial value. Miri/ASan layers: thorough tier.".into()
    }
    fn ncases(&self, ctx: &Ctx) -> u64 {
        2 * directed_values().len() as u64 + ctx.scale(15_000, 1_200_000)
    }
    fn run_case(&self, ctx: &Ctx, idx: u64, frag: &mut Frag) {
        let vals = gen_seq(ctx, idx, 0xC11);
        if frag.samples.is_empty() && idx % 71 == 9 {
            frag.sample(json!({"idx": idx, "values": vals.iter().map(|v| v.render(140)).collect::<Vec<_>>()}));
        }
        check_seq(&vals, frag, ctx.seed ^ idx, idx);
    }
    fn replay(&self, _ctx: &Ctx, case: &Value, frag: &mut Frag) -> bool {
        match vals_from_json(&case["vals"]) {
            Some(vals) => {
                check_seq(&vals, frag, case["choice"].as_u64().unwrap_or(0), case["idx"].as_u64().unwrap_or(0));
                true
            }
            None => false,
        }
    }
    fn finish(&self, _ctx: &Ctx, r: &mut Report, deaths: &[Death]) {
        for d in deaths {
            let sub = d.label.split("::").nth(1).unwrap_or("").trim().to_string();
            let what = sub.split_whitespace().next().unwrap_or("?");
            r.frag.violation(&format!("c11|death|{}|{}", d.class(), what), &format!("worker died ({}) in {}", d.class(), d.label), death_json(d));
        }
        r.assume("contract as exercised: window = size reported by the checked binary length protocol; input = complete reference encoding");
        r.assume("guard regions catch writes outside the window that stay inside the allocation; std ub_checks (dev profile) catch get_unchecked index errors; ASan/Miri layers run in the thorough tier");
        for bk in ALL_BK {
            r.floor(&format!("writer.{}", bk.name()), 1000);
        }
        r.floor("writer.zero_copy_rederivations", 50);
        r.floor("reader.sequences", 1000);
        r.floor("reader.partial_structs", 500);
        r.floor("reader.unknown_fields_skipped", 500);
        for op in ["write_field_begin", "write_bool", "write_i8", "write_i16", "write_i32", "write_i64", "write_double", "write_bytes", "write_bytes_vec", "write_string", "write_faststr", "write_uuid", "write_list_begin", "write_set_begin", "write_map_begin", "read_field_begin", "read_bool", "read_i8", "read_i16", "read_i32", "read_i64", "read_double", "read_bytes", "read_bytes_vec", "read_string", "read_faststr", "read_uuid", "read_list_begin", "read_set_begin", "read_map_begin"] {
            r.floor(&format!("unchecked.{}", op), 10);
        }
    }
}
