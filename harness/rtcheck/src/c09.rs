//! C09 (runtime part) — safe Thrift decoders are total: arbitrary bytes give a
//! value or an error. Fault enumeration over reference encodings.

use bytes::Bytes;
use monitors::aio::{BlockErr, Schedule, ScriptedReader, block_on};
use monitors::alloc;
use monitors::driver::{Check, sub_mark};
use monitors::evidence::{Ctx, Frag, Report};
use monitors::run::{Death, PanicRec, STACK_2MIB, catch, death_json, on_stack, thread_cpu_ns};
use pilota::thrift::{
    ApplicationException, Message, TAsyncBinaryProtocol, TAsyncCompactProtocol,
    TAsyncInputProtocol, TInputProtocol,
    binary_le::TAsyncBinaryProtocol as TAsyncBinaryLeProtocol,
};
use refmodel::faults::{Fault, FaultCfg, enumerate, unstructured};
use refmodel::rng::{Rng, fnv1a, hex, unhex};
use refmodel::tcodec::{Envelope, Knobs, Proto, encode_envelope, encode_with};
use refmodel::tval::{Gen, GenCfg, TT, TVal, directed_values};
use serde_json::{Value, json};

use pcodec::codecs::{Reader, WP};
use pcodec::interp::{Ops, ReadErr, read_val, read_val_async, to_ttype};

pub struct C09;

pub const SAFE_WP: [WP; 3] = [WP::Binary, WP::BinaryLe, WP::Compact];

#[derive(Copy, Clone, Debug, PartialEq, Eq)]
pub enum Target {
    Read(WP),
    Skip(WP),
    ReadAsync(WP),
    SkipAsync(WP),
    Envelope(WP),
    EnvelopeAsync(WP),
    AppExc(WP),
    AppExcAsync(WP),
}

impl Target {
    pub fn name(self) -> String {
        match self {
            Target::Read(w) => format!("read.{}", w.name()),
            Target::Skip(w) => format!("skip.{}", w.name()),
            Target::ReadAsync(w) => format!("read_async.{}", w.name()),
            Target::SkipAsync(w) => format!("skip_async.{}", w.name()),
            Target::Envelope(w) => format!("envelope.{}", w.name()),
            Target::EnvelopeAsync(w) => format!("envelope_async.{}", w.name()),
            Target::AppExc(w) => format!("appexc.{}", w.name()),
            Target::AppExcAsync(w) => format!("appexc_async.{}", w.name()),
        }
    }
    fn wp(self) -> WP {
        match self {
            Target::Read(w) | Target::Skip(w) | Target::ReadAsync(w) | Target::SkipAsync(w) | Target::Envelope(w) | Target::EnvelopeAsync(w) | Target::AppExc(w) | Target::AppExcAsync(w) => w,
        }
    }
}

#[derive(Debug)]
pub enum Outcome {
    Ok,
    Err,
    /// harness cap reached (absurd element count / nesting the read walk refuses to follow)
    HarnessCap,
    Panic(PanicRec),
    Hang(String),
}

pub struct Exec {
    pub outcome: Outcome,
    pub peak: usize,
    pub max_req: usize,
    pub cpu_ns: u64,
}

fn run_async_target<F, T>(budget: usize, f: F) -> Result<Result<T, ReadErr>, String>
where
    F: std::future::Future<Output = Result<T, ReadErr>>,
{
    match block_on(f, budget) {
        Ok((r, _)) => Ok(r),
        Err(BlockErr::Budget(n)) => Err(format!("poll budget exceeded after {} polls", n)),
        Err(BlockErr::Stalled(n)) => Err(format!("returned Pending without a wake-up at poll {}", n)),
    }
}

pub fn exec(t: Target, bytes: &[u8], tt: TT, hint: Option<&TVal>, sched: &Schedule) -> Exec {
    let start = alloc::window_start();
    let c0 = thread_cpu_ns();
    let r = catch(|| -> Result<Result<(), ReadErr>, String> {
        let budget = 16 * bytes.len() + 256;
        match t {
            Target::Read(wp) => {
                let mut b = Bytes::copy_from_slice(bytes);
                let mut r = Reader::new(wp, &mut b);
                let mut ops = Ops::default();
                ops.choice = bytes.len() as u64;
                Ok(read_val(r.p(), tt, hint, &mut ops).map(|_| ()))
            }
            Target::Skip(wp) => {
                let mut b = Bytes::copy_from_slice(bytes);
                let mut r = Reader::new(wp, &mut b);
                Ok(r.p().skip(to_ttype(tt)).map(|_| ()).map_err(ReadErr::from))
            }
            Target::Envelope(wp) => {
                let mut b = Bytes::copy_from_slice(bytes);
                let mut r = Reader::new(wp, &mut b);
                Ok(r.p().read_message_begin().map(|_| ()).map_err(ReadErr::from))
            }
            Target::AppExc(wp) => {
                let mut b = Bytes::copy_from_slice(bytes);
                let mut r = Reader::new(wp, &mut b);
                // ApplicationException::decode is generic over a sized protocol
                Ok(match &mut r {
                    Reader::Bin(p, _) => ApplicationException::decode(p),
                    Reader::Le(p, _) => ApplicationException::decode(p),
                    Reader::Cmp(p, _) => ApplicationException::decode(p),
                    Reader::Un(p, _) => ApplicationException::decode(p),
                }
                .map(|_| ())
                .map_err(ReadErr::from))
            }
            Target::ReadAsync(wp) | Target::SkipAsync(wp) | Target::EnvelopeAsync(wp) | Target::AppExcAsync(wp) => {
                let rd = ScriptedReader::new(bytes.to_vec(), sched.clone());
                macro_rules! with {
                    ($p:expr) => {{
                        let mut p = $p;
                        match t {
                            Target::ReadAsync(_) => {
                                let mut ops = Ops::default();
                                ops.choice = bytes.len() as u64;
                                run_async_target(budget, async { read_val_async(&mut p, tt, hint, &mut ops).await.map(|_| ()) })
                            }
                            Target::SkipAsync(_) => run_async_target(budget, async { p.skip(to_ttype(tt)).await.map_err(ReadErr::from) }),
                            Target::EnvelopeAsync(_) => run_async_target(budget, async { p.read_message_begin().await.map(|_| ()).map_err(ReadErr::from) }),
                            _ => run_async_target(budget, async { ApplicationException::decode_async(&mut p).await.map(|_| ()).map_err(ReadErr::from) }),
                        }
                    }};
                }
                match wp {
                    WP::Binary => with!(TAsyncBinaryProtocol::new(rd)),
                    WP::BinaryLe => with!(TAsyncBinaryLeProtocol::new(rd)),
                    _ => with!(TAsyncCompactProtocol::new(rd)),
                }
            }
        }
    });
    let cpu_ns = thread_cpu_ns() - c0;
    let end = alloc::snap();
    let outcome = match r {
        Err(p) => Outcome::Panic(p),
        Ok(Err(h)) => Outcome::Hang(h),
        Ok(Ok(Ok(()))) => Outcome::Ok,
        Ok(Ok(Err(ReadErr::TooBig(_)))) | Ok(Ok(Err(ReadErr::TooDeep))) => Outcome::HarnessCap,
        Ok(Ok(Err(_))) => Outcome::Err,
    };
    Exec {
        outcome,
        peak: (end.peak - start.live).max(0) as usize,
        max_req: end.max_req,
        cpu_ns,
    }
}

pub fn alloc_bound(len: usize) -> usize {
    64 * 1024 + 256 * len
}

pub fn cpu_bound_ns(len: usize) -> u64 {
    20_000_000 + 50_000 * len as u64
}

/// Judge one execution. `must_fail`: the input is a strict prefix of a valid
/// struct encoding.
pub fn judge(frag: &mut Frag, t: Target, f_kind: &str, f_at: &str, bytes: &[u8], tt: TT, hint: Option<&TVal>, sched: &Schedule, must_fail: bool, base_hex: &str, desc: &str) {
    sub_mark(&format!("{} {} {}", t.name(), desc, hex(&bytes[..bytes.len().min(96)])));
    let e = exec(t, bytes, tt, hint, sched);
    frag.eval();
    let tn = t.name();
    frag.count(&format!("{}.{}", tn, f_kind));
    frag.distinct(fnv1a(format!("{}|{}|{}|{}", tn, f_kind, f_at, fnv1a(base_hex.as_bytes()) % 64).as_bytes()));
    let case = || json!({"target": tn, "fault": desc, "tt": tt as u8, "input_hex": hex(bytes), "base_hex": base_hex, "schedule": sched.render()});
    match &e.outcome {
        Outcome::Ok => {
            frag.count(&format!("{}.outcome_ok", tn));
            if must_fail {
                frag.violation(&format!("c09|{}|prefix-accepted", tn), &format!("a strict prefix ({} of the full length) of a valid struct encoding was accepted", bytes.len()), case());
            }
        }
        Outcome::Err => frag.count(&format!("{}.outcome_err", tn)),
        Outcome::HarnessCap => frag.count(&format!("{}.harness_cap", tn)),
        Outcome::Panic(p) => {
            frag.violation(&format!("c09|{}|panic|{}|{}", tn, p.site(), p.class()), &format!("panicked at {}: {}", p.location, p.message), case());
        }
        Outcome::Hang(h) => {
            frag.violation(&format!("c09|{}|hang", tn), h, case());
        }
    }
    let bound = alloc_bound(bytes.len());
    if e.max_req > bound || e.peak > bound {
        frag.violation(
            &format!("c09|{}|alloc-out-of-proportion", tn),
            &format!("input of {} bytes: largest single request {} bytes, peak growth {} bytes (bound {})", bytes.len(), e.max_req, e.peak, bound),
            case(),
        );
    }
    frag.max(&format!("max_peak_bytes.{}", tn), e.peak as u64);
    if e.cpu_ns > cpu_bound_ns(bytes.len()) {
        // re-run alone before it counts
        let again: Vec<u64> = (0..2).map(|_| exec(t, bytes, tt, hint, sched).cpu_ns).collect();
        if again.iter().all(|c| *c > cpu_bound_ns(bytes.len())) {
            frag.violation(&format!("c09|{}|cpu-out-of-proportion", tn), &format!("{} ns of CPU for {} bytes (three runs)", e.cpu_ns, bytes.len()), case());
        } else {
            frag.count("cpu_outlier_not_reproduced");
        }
    }
}

fn targets_for_values() -> Vec<Target> {
    let mut v = vec![];
    for w in SAFE_WP {
        v.push(Target::Read(w));
        v.push(Target::Skip(w));
        v.push(Target::ReadAsync(w));
        v.push(Target::SkipAsync(w));
    }
    v
}

fn base_values(ctx: &Ctx, idx: u64) -> TVal {
    let small: Vec<TVal> = directed_values()
        .into_iter()
        .map(|x| x.1)
        .filter(|v| refmodel::tcodec::encode(Proto::Binary, v).len() <= 400)
        .collect();
    if (idx as usize) < small.len() {
        return small[idx as usize].clone();
    }
    let mut rng = Rng::new(ctx.seed ^ 0xC09 ^ idx.wrapping_mul(0x9E37_79B9_7F4A_7C15));
    let mut g = Gen::new(&mut rng, GenCfg { max_depth: 4, leaf_budget: 24, big_strings: false, utf8_only: false, max_container: 16 });
    g.gen_top()
}

fn run_base(ctx: &Ctx, idx: u64, v: &TVal, frag: &mut Frag) {
    let mut rng = Rng::new(ctx.seed ^ idx);
    let cfg = FaultCfg::default();
    let mut totals = (0u64, 0u64);
    for t in targets_for_values() {
        let wire = t.wp().wire();
        let (base, layout) = encode_with(wire, v, &Knobs::default());
        let base_hex = hex(&base);
        let faults: Vec<Fault> = {
            let mut f = enumerate(wire, &base, &layout, &cfg, &mut rng);
            let other = refmodel::tcodec::encode(wire, &TVal::Struct(vec![(1, TVal::Binary(b"zz".to_vec())), (2, TVal::List(TT::I32, vec![TVal::I32(7)]))]));
            f.extend(unstructured(&mut rng, &base, &other, 24));
            f
        };
        totals.0 += faults.len() as u64;
        let is_async = matches!(t, Target::ReadAsync(_) | Target::SkipAsync(_));
        // the valid message itself must be accepted
        {
            let e = exec(t, &base, v.tt(), Some(v), &Schedule::all_at_once());
            frag.eval();
            frag.count(&format!("{}.valid", t.name()));
            match e.outcome {
                Outcome::Ok => {}
                Outcome::Panic(p) => frag.violation(&format!("c09|{}|panic|{}|{}", t.name(), p.site(), p.class()), &format!("valid input: panicked at {}: {}", p.location, p.message), json!({"target": t.name(), "input_hex": base_hex, "tt": v.tt() as u8})),
                other => frag.violation(&format!("c09|{}|valid-rejected", t.name()), &format!("reference-encoded valid value not accepted: {:?}", other), json!({"target": t.name(), "input_hex": base_hex, "tt": v.tt() as u8})),
            }
        }
        for (k, f) in faults.iter().enumerate() {
            let sched = if is_async && k % 5 == 0 { Schedule::byte_at_a_time() } else { Schedule::all_at_once() };
            let must_fail = f.strict_prefix && v.tt() == TT::Struct;
            judge(frag, t, f.kind, f.at, &f.bytes, v.tt(), Some(v), &sched, must_fail, &base_hex, &f.desc);
            totals.1 += 1;
        }
    }
    frag.add("fault_positions_total", totals.0);
    frag.add("fault_positions_tried", totals.1);
}

fn run_envelopes(ctx: &Ctx, frag: &mut Frag) {
    let mut rng = Rng::new(ctx.seed ^ 0xE09);
    for (name, mtype, seq) in [(&b"ping"[..], 1u8, 1i32), (&b""[..], 2, -1), ("méthode".as_bytes(), 4, i32::MAX)] {
        for w in SAFE_WP {
            let base = encode_envelope(w.wire(), &Envelope { name: name.to_vec(), mtype, seq });
            let base_hex = hex(&base);
            for t in [Target::Envelope(w), Target::EnvelopeAsync(w)] {
                for n in 0..base.len() {
                    judge(frag, t, "trunc", "envelope", &base[..n], TT::Struct, None, &Schedule::all_at_once(), false, &base_hex, &format!("trunc@{}", n));
                }
                for i in 0..base.len() {
                    for b in 0..8 {
                        let mut m = base.clone();
                        m[i] ^= 1 << b;
                        judge(frag, t, "bitflip", "envelope", &m, TT::Struct, None, &Schedule::all_at_once(), false, &base_hex, &format!("flip@{}.{}", i, b));
                    }
                }
                // name length overwritten with boundary values
                let (off, width) = match w.wire() {
                    Proto::Compact => (2 + refmodel::tcodec::uvarint_len(seq as u32 as u64), 0),
                    _ => (4, 4),
                };
                for val in [-1i64, 0, 1, base.len() as i64, i32::MAX as i64, u32::MAX as i64] {
                    let mut m = base[..off].to_vec();
                    match w.wire() {
                        Proto::Binary => m.extend_from_slice(&(val as i32).to_be_bytes()),
                        Proto::BinaryLe => m.extend_from_slice(&(val as i32).to_le_bytes()),
                        Proto::Compact => refmodel::tcodec::put_uvarint(&mut m, val as u32 as u64),
                    }
                    let skip = if width == 0 { refmodel::tcodec::uvarint_len(name.len() as u64) } else { width };
                    m.extend_from_slice(&base[(off + skip).min(base.len())..]);
                    judge(frag, t, "len", "envelope_name_len", &m, TT::Struct, None, &Schedule::all_at_once(), false, &base_hex, &format!("namelen={}", val));
                }
                for _ in 0..64 {
                    let l = rng.usize_below(24);
                    let m = rng.bytes(l);
                    judge(frag, t, "unstructured", "random", &m, TT::Struct, None, &Schedule::byte_at_a_time(), false, &base_hex, "random");
                }
            }
        }
    }
}

fn run_appexc(ctx: &Ctx, frag: &mut Frag) {
    let mut rng = Rng::new(ctx.seed ^ 0xA09);
    let v = TVal::Struct(vec![(1, TVal::Binary(b"remote failure".to_vec())), (5, TVal::List(TT::Binary, vec![TVal::Binary(b"x".to_vec())])), (2, TVal::I32(6))]);
    for w in SAFE_WP {
        let (base, layout) = encode_with(w.wire(), &v, &Knobs::default());
        let base_hex = hex(&base);
        let faults = enumerate(w.wire(), &base, &layout, &FaultCfg::default(), &mut rng);
        for t in [Target::AppExc(w), Target::AppExcAsync(w)] {
            for f in &faults {
                judge(frag, t, f.kind, f.at, &f.bytes, TT::Struct, None, &Schedule::all_at_once(), f.strict_prefix, &base_hex, &f.desc);
            }
        }
    }
}

const FIXED: u64 = 2;

impl Check for C09 {
    fn id(&self) -> &'static str {
        "c09"
    }
    fn level(&self) -> &'static str {
        "fault_enumeration"
    }
    fn rule(&self) -> String {
        "for each base value (small directed shapes + random trees) encoded by the reference codec per protocol: EVERY truncation point, EVERY single-bit flip (messages <= 256 B; header bits + 256 sampled payload bits above), EVERY length/count field overwritten with {-1,0,1,rem-1,rem,rem+1,i32::MAX,u32::MAX,2^24} (+ over-long varints on compact), EVERY type code replaced by every other code, plus unstructured inputs; fed to read walk, skip(), read_message_begin and ApplicationException::decode, sync and async, on binary / binary_le / compact. Oracle per execution: Ok or Err, no panic, process alive, peak+largest allocation <= 64 KiB + 256 x len(input), CPU <= 20 ms + 50 us/byte (re-run before it counts), async poll budget 16 x len + 256; strict prefixes of struct encodings must be Err. distinct = (target, fault kind, position class, base-message bucket)".into()
    }
    fn ncases(&self, ctx: &Ctx) -> u64 {
        FIXED + ctx.scale(110, 6_000)
    }
    fn label(&self, _ctx: &Ctx, idx: u64) -> String {
        match idx {
            0 => "envelopes".into(),
            1 => "appexc".into(),
            _ => format!("base{}", idx),
        }
    }
    fn run_case(&self, ctx: &Ctx, idx: u64, frag: &mut Frag) {
        let ctx2 = ctx.clone();
        // the decoders run on a 2 MiB stack (the Rust default for spawned threads)
        let mut local = on_stack(STACK_2MIB, move || {
            let mut f = Frag::new();
            match idx {
                0 => run_envelopes(&ctx2, &mut f),
                1 => run_appexc(&ctx2, &mut f),
                _ => {
                    let v = base_values(&ctx2, idx - FIXED);
                    if idx % 37 == 2 {
                        f.sample(json!({"base_value": v.render(160), "binary_hex": hex(&refmodel::tcodec::encode(Proto::Binary, &v)).chars().take(160).collect::<String>(), "faults": "every truncation / bit flip / length+count boundary / type code, see rule"}));
                    }
                    run_base(&ctx2, idx, &v, &mut f);
                }
            }
            f
        });
        std::mem::swap(&mut local.samples, &mut frag.samples);
        let s = std::mem::take(&mut local.samples);
        frag.merge(local);
        for x in s {
            frag.sample(x);
        }
    }
    fn replay(&self, _ctx: &Ctx, case: &Value, frag: &mut Frag) -> bool {
        let tname = case["target"].as_str().unwrap_or("");
        let bytes = unhex(case["input_hex"].as_str().unwrap_or(""));
        let tt = TT::from_binary_code(case["tt"].as_u64().unwrap_or(12) as u8).unwrap_or(TT::Struct);
        let mut all = targets_for_values();
        for w in SAFE_WP {
            all.extend([Target::Envelope(w), Target::EnvelopeAsync(w), Target::AppExc(w), Target::AppExcAsync(w)]);
        }
        for t in all {
            if t.name() == tname {
                for sched in [Schedule::all_at_once(), Schedule::byte_at_a_time()] {
                    judge(frag, t, "replay", "replay", &bytes, tt, None, &sched, false, "", "replay");
                }
                return true;
            }
        }
        false
    }
    fn finish(&self, _ctx: &Ctx, r: &mut Report, deaths: &[Death]) {
        for d in deaths {
            let sub = d.label.split("::").nth(1).unwrap_or("").trim().to_string();
            let target = sub.split_whitespace().next().unwrap_or("?");
            r.frag.violation(
                &format!("c09|{}|death|{}", target, d.class()),
                &format!("worker process died ({}) while decoding: {}", d.class(), d.label),
                death_json(d),
            );
        }
        r.exhaustive = Some(false);
        r.assume("allocation bound 64 KiB + 256 x len(input) includes the read walk's own value tree (<= ~120 bytes per input byte)");
        r.assume("requests >= 256 MiB are served by mmap(MAP_NORESERVE) so that they are recorded instead of killing the worker");
        r.assume("the unchecked binary reader is excluded: its contract is well-formed input");
        r.assume("read_string/read_faststr are reached only when the base value's payload at that position was UTF-8");
        for t in targets_for_values() {
            for k in ["trunc", "bitflip", "len", "count", "typecode", "unstructured"] {
                r.floor(&format!("{}.{}", t.name(), k), 200);
            }
            r.floor(&format!("{}.outcome_err", t.name()), 1000);
            r.floor(&format!("{}.valid", t.name()), 50);
        }
        for w in SAFE_WP {
            for t in [Target::Envelope(w), Target::EnvelopeAsync(w), Target::AppExc(w), Target::AppExcAsync(w)] {
                r.floor(&format!("{}.trunc", t.name()), 10);
                r.floor(&format!("{}.bitflip", t.name()), 50);
            }
        }
    }
}
