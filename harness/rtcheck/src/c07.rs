//! C07 — skipping a value consumes exactly that value.

use bytes::Bytes;
use monitors::aio::{Schedule, ScriptedReader, block_on};
use monitors::driver::{Check, sub_mark};
use monitors::evidence::{Ctx, Frag, Report};
use monitors::run::{Death, STACK_2MIB, catch, death_json, on_stack};
use pilota::thrift::{
    ProtocolExceptionKind, TAsyncBinaryProtocol, TAsyncCompactProtocol, TAsyncInputProtocol,
    TInputProtocol, TType, ThriftException,
    binary_le::TAsyncBinaryProtocol as TAsyncBinaryLeProtocol,
};
use refmodel::rng::{Rng, hex};
use refmodel::tcodec::{Proto, encode};
use refmodel::tval::{
    ALL_TT, Gen, GenCfg, SCALAR_TT, TT, TVal, directed_values, nested_list, nested_map,
    nested_struct,
};
use serde_json::{Value, json};

use crate::c01::{vals_from_json, vals_to_json};
use pcodec::codecs::{ALL_WP, Reader, WP};
use pcodec::interp::{Ops, read_val, read_val_async, to_ttype};

pub struct C07;

#[derive(Copy, Clone, Debug, PartialEq)]
enum AP {
    Binary,
    BinaryLe,
    Compact,
}
const ALL_AP: [AP; 3] = [AP::Binary, AP::BinaryLe, AP::Compact];
impl AP {
    fn name(self) -> &'static str {
        match self {
            AP::Binary => "async_binary",
            AP::BinaryLe => "async_binary_le",
            AP::Compact => "async_compact",
        }
    }
    fn wire(self) -> Proto {
        match self {
            AP::Binary => Proto::Binary,
            AP::BinaryLe => Proto::BinaryLe,
            AP::Compact => Proto::Compact,
        }
    }
}

fn is_depth_limit(e: &ThriftException) -> bool {
    matches!(e, ThriftException::Protocol(p) if p.kind() == ProtocolExceptionKind::DepthLimit)
}

#[derive(Debug)]
enum SkipOut {
    /// skipped `n` bytes (as reported), position after skip, value read next, position at end
    Ok { reported: usize, pos_after: usize, next: Result<TVal, String>, stop_seen: bool, end_pos: usize },
    DepthLimit,
    OtherErr(String),
    HeaderErr(String),
}

/// message = struct { 1: x, 2: y } ++ noise ; skip field 1, read field 2.
fn build(wire: Proto, x: &TVal, y: &TVal, noise: &[u8]) -> (Vec<u8>, usize, usize, usize) {
    let s = TVal::Struct(vec![(1, x.clone()), (2, y.clone())]);
    let mut b = encode(wire, &s);
    let total = b.len();
    let only_x = encode(wire, &TVal::Struct(vec![(1, x.clone())]));
    let hdr = match wire {
        Proto::Compact => 1,
        _ => 3,
    };
    let x_len = only_x.len() - 1 - hdr;
    b.extend_from_slice(noise);
    (b, hdr, x_len, total)
}

fn run_sync(wp: WP, bytes: &[u8], y: &TVal) -> SkipOut {
    let mut b = Bytes::copy_from_slice(bytes);
    let mut r = Reader::new(wp, &mut b);
    if let Err(e) = r.p().read_struct_begin() {
        return SkipOut::HeaderErr(format!("{}", e));
    }
    let fi = match r.p().read_field_begin() {
        Ok(fi) => fi,
        Err(e) => return SkipOut::HeaderErr(format!("{}", e)),
    };
    let reported = match r.p().skip(fi.field_type) {
        Ok(n) => n,
        Err(e) => {
            return if is_depth_limit(&e) { SkipOut::DepthLimit } else { SkipOut::OtherErr(format!("{}", e)) };
        }
    };
    let pos_after = r.consumed();
    let _ = r.p().read_field_end();
    let mut ops = Ops::default();
    let next = (|| -> Result<TVal, String> {
        let f2 = r.p().read_field_begin().map_err(|e| format!("{}", e))?;
        if f2.id != Some(2) || f2.field_type != to_ttype(y.tt()) {
            return Err(format!("next field header read as {:?}", f2));
        }
        let v = read_val(r.p(), y.tt(), Some(y), &mut ops).map_err(|e| format!("{:?}", e))?;
        r.p().read_field_end().map_err(|e| format!("{}", e))?;
        Ok(v)
    })();
    let stop_seen = matches!(r.p().read_field_begin(), Ok(f) if f.field_type == TType::Stop);
    let _ = r.p().read_struct_end();
    let end_pos = r.consumed();
    SkipOut::Ok { reported, pos_after, next, stop_seen, end_pos }
}

async fn run_async_inner<P: TAsyncInputProtocol>(p: &mut P, y: &TVal) -> Result<(Result<(), ThriftException>, Option<(Result<TVal, String>, bool)>), String> {
    p.read_struct_begin().await.map_err(|e| format!("{}", e))?;
    let fi = p.read_field_begin().await.map_err(|e| format!("{}", e))?;
    let s = p.skip(fi.field_type).await;
    if s.is_err() {
        return Ok((s, None));
    }
    let _ = p.read_field_end().await;
    let mut ops = Ops::default();
    let next: Result<TVal, String> = async {
        let f2 = p.read_field_begin().await.map_err(|e| format!("{}", e))?;
        if f2.id != Some(2) || f2.field_type != to_ttype(y.tt()) {
            return Err(format!("next field header read as {:?}", f2));
        }
        let v = read_val_async(p, y.tt(), Some(y), &mut ops).await.map_err(|e| format!("{:?}", e))?;
        p.read_field_end().await.map_err(|e| format!("{}", e))?;
        Ok(v)
    }
    .await;
    let stop = matches!(p.read_field_begin().await, Ok(f) if f.field_type == TType::Stop);
    let _ = p.read_struct_end().await;
    Ok((Ok(()), Some((next, stop))))
}

/// returns (outcome, bytes handed out by the stream at the end)
fn run_async(ap: AP, bytes: &[u8], y: &TVal, sched: Schedule) -> (SkipOut, usize) {
    // Two-phase so that the position right after skip() is observable: the
    // scripted reader is shared through a raw pointer owned by this frame.
    struct Shared(*mut ScriptedReader);
    impl tokio::io::AsyncRead for Shared {
        fn poll_read(self: std::pin::Pin<&mut Self>, cx: &mut std::task::Context<'_>, buf: &mut tokio::io::ReadBuf<'_>) -> std::task::Poll<std::io::Result<()>> {
            let ptr = self.0;
            let r = unsafe { &mut *ptr };
            std::pin::Pin::new(r).poll_read(cx, buf)
        }
    }
    unsafe impl Send for Shared {}
    let mut rd = ScriptedReader::new(bytes.to_vec(), sched);
    let ptr: *mut ScriptedReader = &mut rd;
    let budget = 16 * bytes.len() + 256;
    macro_rules! go {
        ($p:expr) => {{
            let mut p = $p;
            let r = block_on(run_async_inner(&mut p, y), budget);
            r
        }};
    }
    let r = match ap {
        AP::Binary => go!(TAsyncBinaryProtocol::new(Shared(ptr))),
        AP::BinaryLe => go!(TAsyncBinaryLeProtocol::new(Shared(ptr))),
        AP::Compact => go!(TAsyncCompactProtocol::new(Shared(ptr))),
    };
    let handed = rd.handed;
    let out = match r {
        Err(e) => SkipOut::OtherErr(format!("executor: {:?}", e)),
        Ok((Err(e), _)) => SkipOut::HeaderErr(e),
        Ok((Ok((Err(e), _)), _)) => {
            if is_depth_limit(&e) { SkipOut::DepthLimit } else { SkipOut::OtherErr(format!("{}", e)) }
        }
        Ok((Ok((Ok(()), Some((next, stop)))), _)) => SkipOut::Ok { reported: usize::MAX, pos_after: usize::MAX, next, stop_seen: stop, end_pos: handed },
        Ok((Ok((Ok(()), None)), _)) => SkipOut::OtherErr("internal".into()),
    };
    (out, handed)
}

fn classify_ok(
    who: &str,
    x: &TVal,
    y: &TVal,
    hdr: usize,
    x_len: usize,
    total: usize,
    out: &SkipOut,
    is_async: bool,
) -> Option<(String, String)> {
    match out {
        SkipOut::Ok { reported, pos_after, next, stop_seen, end_pos } => {
            if !is_async {
                if *reported != x_len {
                    return Some((format!("{}|count|{}", who, x.tt().name()), format!("skip reported {} bytes, the value occupies {}", reported, x_len)));
                }
                if *pos_after != hdr + x_len {
                    return Some((format!("{}|position|{}", who, x.tt().name()), format!("after skip the reader is at {}, the value ends at {}", pos_after, hdr + x_len)));
                }
            }
            match next {
                Ok(v) => {
                    if v.norm_empty_maps() != y.norm_empty_maps() {
                        return Some((format!("{}|following-value|{}", who, x.tt().name()), format!("value after the skipped one read as {} expected {}", v.render(100), y.render(100))));
                    }
                }
                Err(e) => return Some((format!("{}|following-value-error|{}", who, x.tt().name()), format!("reading the value after the skipped one failed: {}", e))),
            }
            if !stop_seen {
                return Some((format!("{}|no-stop-after|{}", who, x.tt().name()), "struct stop not found after the following value".into()));
            }
            if *end_pos != total {
                return Some((format!("{}|end-position|{}", who, x.tt().name()), format!("consumed {} bytes in total, the message is {} (trailing noise must stay unread)", end_pos, total)));
            }
            None
        }
        SkipOut::DepthLimit => Some((format!("{}|depth-limit-on-shallow|{}", who, x.tt().name()), format!("depth-limit error on a value of nesting level {}", x.depth()))),
        SkipOut::OtherErr(e) => Some((format!("{}|skip-error|{}", who, x.tt().name()), format!("skip failed: {}", e))),
        SkipOut::HeaderErr(e) => Some((format!("{}|header-error|{}", who, x.tt().name()), format!("field header unreadable: {}", e))),
    }
}

fn map_class(x: &TVal) -> Option<&'static str> {
    if let TVal::Map(k, v, es) = x {
        if es.is_empty() {
            return Some("map_empty");
        }
        let kf = k.binary_fixed() > 0;
        let vf = v.binary_fixed() > 0;
        return Some(match (kf, vf) {
            (true, true) => "map_fixed_fixed",
            (true, false) => "map_fixed_var",
            (false, true) => "map_var_fixed",
            (false, false) => "map_var_var",
        });
    }
    None
}

fn check_pair(x: &TVal, y: &TVal, noise: &[u8], frag: &mut Frag, idx: u64, deep: bool) {
    frag.eval();
    if x.nontrivial() {
        frag.distinct(x.hash64() ^ y.hash64().rotate_left(1));
    }
    let level = x.depth();
    let case = || json!({"idx": idx, "vals": vals_to_json(&[x.clone(), y.clone()]), "noise": hex(noise), "level": level});
    for wp in ALL_WP {
        let (b, hdr, x_len, total) = build(wp.wire(), x, y, noise);
        sub_mark(&format!("{} skip {} level {}", wp.name(), x.tt().name(), level));
        let yy = y.clone();
        let bb = b.clone();
        let r = on_stack(STACK_2MIB, move || catch(|| run_sync(wp, &bb, &yy)));
        frag.count(&format!("{}.skip.{}", wp.name(), x.tt().name()));
        if let Some(c) = map_class(x) {
            frag.count(&format!("{}.skip.{}", wp.name(), c));
        }
        match r {
            Err(p) => frag.violation(&format!("c07|{}|panic|{}|{}", wp.name(), p.site(), p.class()), &format!("skip panicked at {}: {}", p.location, p.message), case()),
            Ok(out) => {
                if deep {
                    frag.count(&format!("{}.depth.{}", wp.name(), level.min(99)));
                    let too_deep = level > 64;
                    match (&out, too_deep, wp) {
                        (SkipOut::DepthLimit, true, _) => {}
                        // iterative skipper: either outcome is fine beyond the limit
                        (SkipOut::Ok { .. }, true, WP::Unchecked) => {
                            if let Some((k, w)) = classify_ok(wp.name(), x, y, hdr, x_len, total, &out, false) {
                                frag.violation(&format!("c07|{}", k), &w, case());
                            }
                        }
                        (SkipOut::Ok { .. }, true, _) => frag.violation(
                            &format!("c07|{}|no-depth-limit", wp.name()),
                            &format!("nesting level {} (> 64) was skipped without a depth-limit error", level),
                            case(),
                        ),
                        (SkipOut::DepthLimit, false, WP::Unchecked) => frag.violation(&format!("c07|{}|depth-limit-on-shallow", wp.name()), &format!("level {}", level), case()),
                        (o, false, _) => {
                            if let Some((k, w)) = classify_ok(wp.name(), x, y, hdr, x_len, total, o, false) {
                                frag.violation(&format!("c07|{}", k), &w, case());
                            }
                        }
                        (o, true, _) => frag.violation(&format!("c07|{}|deep-wrong-error", wp.name()), &format!("level {}: expected a depth-limit error, got {:?}", level, o), case()),
                    }
                } else if let Some((k, w)) = classify_ok(wp.name(), x, y, hdr, x_len, total, &out, false) {
                    frag.violation(&format!("c07|{}", k), &w, case());
                }
            }
        }
    }
    for ap in ALL_AP {
        let (b, hdr, x_len, total) = build(ap.wire(), x, y, noise);
        let scheds = if b.len() <= 64 {
            vec![Schedule::all_at_once(), Schedule::byte_at_a_time()]
        } else {
            vec![Schedule { chunks: vec![], tail: 7, pending_at: vec![1, 5], pending_always: false }]
        };
        for sched in scheds {
            sub_mark(&format!("{} skip {} level {}", ap.name(), x.tt().name(), level));
            let yy = y.clone();
            let bb = b.clone();
            let r = on_stack(STACK_2MIB, move || catch(|| run_async(ap, &bb, &yy, sched)));
            frag.count(&format!("{}.skip.{}", ap.name(), x.tt().name()));
            match r {
                Err(p) => frag.violation(&format!("c07|{}|panic|{}|{}", ap.name(), p.site(), p.class()), &format!("async skip panicked at {}: {}", p.location, p.message), case()),
                Ok((out, _handed)) => {
                    if deep {
                        frag.count(&format!("{}.depth.{}", ap.name(), level.min(99)));
                        let too_deep = level > 64;
                        match (&out, too_deep) {
                            (SkipOut::DepthLimit, true) => {}
                            (SkipOut::Ok { .. }, true) => frag.violation(&format!("c07|{}|no-depth-limit", ap.name()), &format!("nesting level {} (> 64) skipped without a depth-limit error", level), case()),
                            (o, false) => {
                                if let Some((k, w)) = classify_ok(ap.name(), x, y, hdr, x_len, total, o, true) {
                                    frag.violation(&format!("c07|{}", k), &w, case());
                                }
                            }
                            (o, true) => frag.violation(&format!("c07|{}|deep-wrong-error", ap.name()), &format!("level {}: expected depth-limit, got {:?}", level, o), case()),
                        }
                    } else if let Some((k, w)) = classify_ok(ap.name(), x, y, hdr, x_len, total, &out, true) {
                        frag.violation(&format!("c07|{}", k), &w, case());
                    }
                }
            }
        }
    }
}

fn directed_pairs() -> Vec<(TVal, TVal, bool)> {
    let mut v = vec![];
    let y = TVal::Struct(vec![(3, TVal::I32(-77)), (4, TVal::Binary(b"next".to_vec()))]);
    // every wire type alone
    for tt in ALL_TT {
        let x = match tt {
            TT::Bool => TVal::Bool(false),
            TT::I8 => TVal::I8(-3),
            TT::I16 => TVal::I16(-300),
            TT::I32 => TVal::I32(70_000),
            TT::I64 => TVal::I64(-(1 << 50)),
            TT::Double => TVal::Double(2.5f64.to_bits()),
            TT::Binary => TVal::Binary(b"skipped".to_vec()),
            TT::Uuid => TVal::Uuid(*b"0123456789abcdef"),
            TT::Struct => TVal::Struct(vec![(1, TVal::Bool(true)), (2, TVal::I32(300)), (9, TVal::Uuid([1; 16]))]),
            TT::List => TVal::List(TT::I32, vec![TVal::I32(1), TVal::I32(300), TVal::I32(-70000)]),
            TT::Set => TVal::Set(TT::Uuid, vec![TVal::Uuid([2; 16]), TVal::Uuid([3; 16])]),
            TT::Map => TVal::Map(TT::I32, TT::Binary, vec![(TVal::I32(300), TVal::Binary(b"v".to_vec()))]),
        };
        v.push((x.clone(), y.clone(), false));
        v.push((x, TVal::I32(5), false));
    }
    // containers of every scalar element type, empty and large
    for et in SCALAR_TT {
        let mut rng = Rng::new(et as u64);
        let mut g = Gen::new(&mut rng, GenCfg { big_strings: false, ..Default::default() });
        for n in [0usize, 1, 15, 10_000] {
            // (under the Miri interpreter the large containers are 40 elements: same case list, bounded time)
            let n = if cfg!(miri) && n == 10_000 { 40 } else { n };
            let n = if et == TT::Binary && n == 10_000 { 2_000 } else { n };
            let xs: Vec<TVal> = (0..n).map(|_| g.gen_scalar(et)).collect();
            v.push((TVal::List(et, xs.clone()), y.clone(), false));
            v.push((TVal::Set(et, xs), TVal::Bool(true), false));
        }
    }
    // maps: fixed x fixed, fixed x variable, variable x fixed, variable x variable, nested
    let mk = |k: TT, vt: TT, n: usize| {
        let mut rng = Rng::new(k as u64 * 31 + vt as u64);
        let mut g = Gen::new(&mut rng, GenCfg { big_strings: false, max_depth: 2, ..Default::default() });
        TVal::Map(k, vt, (0..n).map(|_| (g.gen_val(k, 1), g.gen_val(vt, 1))).collect())
    };
    for (k, vt) in [(TT::I32, TT::I64), (TT::I8, TT::Binary), (TT::Binary, TT::Double), (TT::Binary, TT::Binary), (TT::I16, TT::Struct), (TT::Struct, TT::I16), (TT::Uuid, TT::List), (TT::I64, TT::Map), (TT::Bool, TT::Bool), (TT::Double, TT::Uuid), (TT::Set, TT::Set)] {
        for n in [0usize, 1, 3, 200] {
            let n = if cfg!(miri) && n == 200 { 6 } else { n };
            v.push((mk(k, vt, n), y.clone(), false));
        }
    }
    // containers of containers
    v.push((TVal::List(TT::List, vec![TVal::List(TT::I32, vec![TVal::I32(1)]), TVal::List(TT::I32, vec![])]), y.clone(), false));
    v.push((TVal::List(TT::Map, vec![TVal::Map(TT::I8, TT::I8, vec![]), TVal::Map(TT::I8, TT::I8, vec![(TVal::I8(1), TVal::I8(2))])]), y.clone(), false));
    v.push((TVal::List(TT::Struct, vec![TVal::Struct(vec![]), TVal::Struct(vec![(1, TVal::Bool(true))]), TVal::Struct(vec![(1, TVal::List(TT::Struct, vec![TVal::Struct(vec![])]))])]), y.clone(), false));
    for (_, d) in directed_values() {
        v.push((d, y.clone(), false));
    }
    // depth
    for levels in [2usize, 3, 8, 9, 10, 32, 62, 63, 64, 65, 66, 70, 80] {
        v.push((nested_struct(levels), TVal::I32(9), true));
        v.push((nested_list(levels), TVal::I32(9), true));
        v.push((nested_map(levels), TVal::I32(9), true));
    }
    for levels in 1..=80usize {
        if levels >= 2 {
            v.push((nested_struct(levels), TVal::I8(1), true));
        }
    }
    v
}

impl Check for C07 {
    fn id(&self) -> &'static str {
        "c07"
    }
    fn rule(&self) -> String {
        "case = struct{1: x, 2: y} ++ noise, encoded by the reference codec; the reader reads the header of field 1, calls skip(type), then must read y and the stop byte and leave the noise unread. x ranges over every wire type (incl. uuid), empty and 10^4-element containers, maps of every fixed/variable entry class, containers of containers, the C01 directed shapes, random trees, and struct/list/map nesting levels 1..80 run on a 2 MiB stack. Protocols: binary, binary_le, compact, unchecked (iterative skipper), async binary / binary_le / compact. distinct = structural hashes of (x,y) with non-trivial x".into()
    }
    fn ncases(&self, ctx: &Ctx) -> u64 {
        directed_pairs().len() as u64 + ctx.scale(3_000, 300_000)
    }
    fn run_case(&self, ctx: &Ctx, idx: u64, frag: &mut Frag) {
        let d = directed_pairs();
        let mut rng = Rng::new(ctx.seed ^ 0xC07 ^ idx.wrapping_mul(0x9E37_79B9_7F4A_7C15));
        let noise = rng.bytes(rng.clone().usize_below(9) + 1);
        if (idx as usize) < d.len() {
            let (x, y, deep) = &d[idx as usize];
            check_pair(x, y, &noise, frag, idx, *deep);
            return;
        }
        let mut g = Gen::new(&mut rng, GenCfg { max_depth: 6, leaf_budget: 150, ..Default::default() });
        let xt = *g.rng.pick(&ALL_TT);
        g.reset_budget();
        let x = g.gen_val(xt, 0);
        g.reset_budget();
        let y = g.gen_top();
        if frag.samples.len() < 2 && idx % 41 == 0 {
            frag.sample(json!({"idx": idx, "skipped": x.render(160), "following": y.render(100), "noise": hex(&noise)}));
        }
        check_pair(&x, &y, &noise, frag, idx, false);
    }
    fn replay(&self, _ctx: &Ctx, case: &Value, frag: &mut Frag) -> bool {
        match vals_from_json(&case["vals"]) {
            Some(v) if v.len() == 2 => {
                let noise = refmodel::rng::unhex(case["noise"].as_str().unwrap_or("5a"));
                let deep = case["level"].as_u64().unwrap_or(0) > 8;
                check_pair(&v[0], &v[1], &noise, frag, case["idx"].as_u64().unwrap_or(0), deep);
                true
            }
            _ => false,
        }
    }
    fn finish(&self, _ctx: &Ctx, r: &mut Report, deaths: &[Death]) {
        for d in deaths {
            // a process death while skipping is exactly what the depth clause forbids
            let cfg = d.label.split("::").nth(1).unwrap_or("").trim().to_string();
            let proto = cfg.split_whitespace().next().unwrap_or("?");
            r.frag.violation(
                &format!("c07|{}|death|{}", proto, d.class()),
                &format!("worker died ({}) while running: {}", d.class(), d.label),
                death_json(d),
            );
        }
        r.assume("skipped value, following value and message length come from the independent reference encoder");
        r.assume("unchecked (iterative) skipper: beyond nesting level 64 either an exact skip or a depth-limit error satisfies the statement; only a crash or a wrong count is a violation");
        r.assume("async skip reports no count; its position is the number of bytes handed out by the scripted stream at the end of the message (noise must stay unread)");
        let names: Vec<&str> = ALL_WP.iter().map(|w| w.name()).chain(ALL_AP.iter().map(|a| a.name())).collect();
        for n in &names {
            for tt in ALL_TT {
                r.floor(&format!("{}.skip.{}", n, tt.name()), 20);
            }
            for lv in [63, 64, 65, 80] {
                r.floor(&format!("{}.depth.{}", n, lv), 1);
            }
        }
        for wp in ALL_WP {
            for c in ["map_empty", "map_fixed_fixed", "map_fixed_var", "map_var_fixed", "map_var_var"] {
                r.floor(&format!("{}.skip.{}", wp.name(), c), 2);
            }
        }
    }
}
