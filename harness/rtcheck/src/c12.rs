//! C12 (runtime part) — asynchronous decoding equals in-memory decoding for
//! every delivery schedule.

use bytes::Bytes;
use monitors::aio::{BlockErr, Schedule, SharedReader, block_on};
use monitors::driver::{Check, deaths_as_violations, sub_mark};
use monitors::evidence::{Ctx, Frag, Report};
use monitors::run::{Death, catch};
use pilota::thrift::{
    TAsyncBinaryProtocol, TAsyncCompactProtocol, TAsyncInputProtocol, TInputProtocol, TType,
    binary_le::TAsyncBinaryProtocol as TAsyncBinaryLeProtocol,
};
use refmodel::faults::{FaultCfg, enumerate};
use refmodel::rng::{Rng, hex, unhex};
use refmodel::tcodec::{Knobs, encode_with};
use refmodel::tval::{ALL_TT, Gen, GenCfg, TT, TVal, directed_values};
use serde_json::{Value, json};

use crate::c09::SAFE_WP;
use pcodec::codecs::{Reader, WP};
use pcodec::interp::{Ops, ReadErr, from_ttype, read_val, read_val_async};

pub struct C12;

const SENTINEL: [u8; 8] = [0xEE; 8];

/// what a decode produced: full value, or (for the partial reader) the known
/// fields
type Out = Result<TVal, String>;

fn sync_full(wp: WP, b: &[u8], tt: TT, hint: Option<&TVal>, choice: u64) -> (Out, usize) {
    let mut data = b.to_vec();
    data.extend_from_slice(&SENTINEL);
    let mut bytes = Bytes::from(data);
    let mut r = Reader::new(wp, &mut bytes);
    let mut ops = Ops::default();
    ops.choice = choice;
    let v = read_val(r.p(), tt, hint, &mut ops).map_err(|e| format!("{:?}", e));
    let c = r.consumed();
    (v, c)
}

fn read_partial_sync(r: &mut Reader, ops: &mut Ops, depth: usize) -> Result<TVal, ReadErr> {
    r.p().read_struct_begin()?;
    let mut fs = vec![];
    loop {
        let fi = r.p().read_field_begin()?;
        if fi.field_type == TType::Stop {
            break;
        }
        let id = fi.id.unwrap_or(0);
        if id % 2 != 0 {
            r.p().skip(fi.field_type)?;
        } else {
            let ft = from_ttype(fi.field_type).ok_or_else(|| ReadErr::BadType(format!("{:?}", fi.field_type)))?;
            let v = if ft == TT::Struct && depth < 6 { read_partial_sync(r, ops, depth + 1)? } else { read_val(r.p(), ft, None, ops)? };
            fs.push((id, v));
        }
        r.p().read_field_end()?;
    }
    r.p().read_struct_end()?;
    Ok(TVal::Struct(fs))
}

fn sync_partial(wp: WP, b: &[u8], choice: u64) -> (Out, usize) {
    let mut data = b.to_vec();
    data.extend_from_slice(&SENTINEL);
    let mut bytes = Bytes::from(data);
    let mut r = Reader::new(wp, &mut bytes);
    let mut ops = Ops::default();
    ops.choice = choice;
    let v = read_partial_sync(&mut r, &mut ops, 0).map_err(|e| format!("{:?}", e));
    let c = r.consumed();
    (v, c)
}

fn read_partial_async<'a, P: TAsyncInputProtocol>(
    p: &'a mut P,
    ops: &'a mut Ops,
    depth: usize,
) -> std::pin::Pin<Box<dyn std::future::Future<Output = Result<TVal, ReadErr>> + 'a>> {
    Box::pin(async move {
        p.read_struct_begin().await?;
        let mut fs = vec![];
        loop {
            let fi = p.read_field_begin().await?;
            if fi.field_type == TType::Stop {
                break;
            }
            let id = fi.id.unwrap_or(0);
            if id % 2 != 0 {
                p.skip(fi.field_type).await?;
            } else {
                let ft = from_ttype(fi.field_type).ok_or_else(|| ReadErr::BadType(format!("{:?}", fi.field_type)))?;
                let v = if ft == TT::Struct && depth < 6 { read_partial_async(p, ops, depth + 1).await? } else { read_val_async(p, ft, None, ops).await? };
                fs.push((id, v));
            }
            p.read_field_end().await?;
        }
        p.read_struct_end().await?;
        Ok(TVal::Struct(fs))
    })
}

struct AsyncRun {
    out: Result<Out, String>, // Err = executor problem (hang / stall)
    handed: usize,
    polls: usize,
    pendings: usize,
}

fn async_run(wp: WP, b: &[u8], tt: TT, hint: Option<&TVal>, choice: u64, sched: &Schedule, partial: bool) -> AsyncRun {
    let mut data = b.to_vec();
    data.extend_from_slice(&SENTINEL);
    let len = data.len();
    let rd = SharedReader::new(data, sched.clone());
    let budget = 4 * len + 64;
    let mut ops = Ops::default();
    ops.choice = choice;
    macro_rules! go {
        ($p:expr) => {{
            let mut p = $p;
            if partial {
                block_on(async { read_partial_async(&mut p, &mut ops, 0).await }, budget)
            } else {
                block_on(async { read_val_async(&mut p, tt, hint, &mut ops).await }, budget)
            }
        }};
    }
    let r = match wp {
        WP::Binary => go!(TAsyncBinaryProtocol::new(rd.clone())),
        WP::BinaryLe => go!(TAsyncBinaryLeProtocol::new(rd.clone())),
        _ => go!(TAsyncCompactProtocol::new(rd.clone())),
    };
    let out = match r {
        Ok((v, _)) => Ok(v.map_err(|e| format!("{:?}", e))),
        Err(BlockErr::Budget(n)) => Err(format!("poll budget exceeded ({} polls for {} bytes)", n, len)),
        Err(BlockErr::Stalled(n)) => Err(format!("Pending without wake-up at poll {}", n)),
    };
    AsyncRun { out, handed: rd.handed(), polls: rd.polls(), pendings: rd.pendings() }
}

fn compare(frag: &mut Frag, wp: WP, what: &str, b: &[u8], s: &(Out, usize), a: AsyncRun, sched: &Schedule, case: &dyn Fn() -> Value) {
    frag.eval();
    let who = format!("async_{}", wp.name());
    frag.count(&format!("{}.{}", who, what));
    if a.pendings > 0 {
        frag.add(&format!("{}.pending_injections", who), a.pendings as u64);
    }
    let mk = |frag: &mut Frag, key: &str, msg: String| {
        let mut c = case();
        c["schedule"] = json!(sched.render());
        frag.violation(&format!("c12|{}|{}|{}", who, what, key), &msg, c);
    };
    match (&s.0, &a.out) {
        (_, Err(h)) => mk(frag, "hang", h.clone()),
        (Ok(sv), Ok(Ok(av))) => {
            if sv.norm_empty_maps() != av.norm_empty_maps() {
                mk(frag, "value-differs", format!("sync {} vs async {}", sv.render(120), av.render(120)));
            } else if a.handed != s.1 {
                mk(frag, "bytes-consumed", format!("in-memory decoder consumed {} bytes, the stream handed out {} (message {} bytes + sentinel)", s.1, a.handed, b.len()));
            }
            frag.count(&format!("{}.agree_ok", who));
        }
        (Ok(sv), Ok(Err(e))) => mk(frag, "async-error-sync-ok", format!("in-memory decoded {} but async failed: {}", sv.render(80), e)),
        (Err(e), Ok(Ok(av))) => mk(frag, "sync-error-async-ok", format!("in-memory decoder reports {} but async returned {}", e, av.render(80))),
        (Err(_), Ok(Err(_))) => {
            frag.count(&format!("{}.agree_err", who));
            // "never reads past the end of the message": with an erroneous
            // message there is no defined end; only judged on success
        }
    }
    if a.polls > 4 * (b.len() + SENTINEL.len()) + 64 {
        mk(frag, "poll-count", format!("{} poll_read calls for {} bytes", a.polls, b.len()));
    }
}

fn schedules_for(len: usize, rng: &mut Rng, layout_offsets: &[usize], exhaustive: bool, frag: &mut Frag) -> Vec<Schedule> {
    let mut v = vec![Schedule::all_at_once(), Schedule::byte_at_a_time(), Schedule { pending_always: true, ..Default::default() }, Schedule { tail: 1, pending_always: true, ..Default::default() }];
    if exhaustive && len <= 48 {
        for i in 1..len {
            v.push(Schedule::splits(&[i]));
            for j in i + 1..len {
                v.push(Schedule::splits(&[i, j]));
            }
        }
        frag.add("schedules_enumerated_exhaustively", (v.len() - 4) as u64);
        frag.count("messages_with_exhaustive_1_2_split_schedules");
    } else {
        // boundaries inside multi-byte fields, geometric chunks, random pendings
        for off in layout_offsets.iter().take(24) {
            if *off + 1 < len {
                v.push(Schedule::splits(&[*off + 1]));
            }
        }
        let mut chunks = vec![];
        let mut c = 1;
        let mut total = 0;
        while total < len {
            chunks.push(c);
            total += c;
            c *= 2;
        }
        v.push(Schedule { chunks, ..Default::default() });
        for _ in 0..4 {
            let n = 1 + rng.usize_below(6);
            let mut pts: Vec<usize> = (0..n).map(|_| 1 + rng.usize_below(len.max(2) - 1)).collect();
            pts.sort();
            pts.dedup();
            let pend: Vec<usize> = (0..rng.usize_below(5)).map(|_| rng.usize_below(len + 2)).collect();
            let mut s = Schedule::splits(&pts);
            s.pending_at = pend;
            s.tail = rng.usize_below(4);
            v.push(s);
        }
    }
    v
}

fn check_value(ctx: &Ctx, v: &TVal, frag: &mut Frag, idx: u64, with_faults: bool) {
    let mut rng = Rng::new(ctx.seed ^ idx ^ 0x12);
    let choice = ctx.seed ^ idx;
    if v.nontrivial() {
        frag.distinct(v.hash64());
    }
    for wp in SAFE_WP {
        let (b, layout) = encode_with(wp.wire(), v, &Knobs::default());
        let offs: Vec<usize> = layout.items.iter().filter(|i| i.len > 1).map(|i| i.off).collect();
        let scheds = schedules_for(b.len(), &mut rng, &offs, true, frag);
        let case = || json!({"idx": idx, "wp": wp.name(), "tt": v.tt() as u8, "input_hex": hex(&b), "value": v.render(120)});
        // full decode
        let s = match catch(|| sync_full(wp, &b, v.tt(), Some(v), choice)) {
            Ok(s) => s,
            Err(_) => {
                frag.masked("sync-decoder-panicked(C09)");
                continue;
            }
        };
        for sched in &scheds {
            sub_mark(&format!("async_{} full {} {}", wp.name(), sched.render(), hex(&b[..b.len().min(48)])));
            match catch(|| async_run(wp, &b, v.tt(), Some(v), choice, sched, false)) {
                Ok(a) => compare(frag, wp, "full", &b, &s, a, sched, &case),
                Err(p) => frag.violation(&format!("c12|async_{}|panic|{}|{}", wp.name(), p.site(), p.class()), &format!("{} {}", p.location, p.message), case()),
            }
        }
        // partial reader: unknown (odd-id) fields go through the async skipper
        if let TVal::Struct(fs) = v {
            let s = match catch(|| sync_partial(wp, &b, choice)) {
                Ok(s) => s,
                Err(_) => {
                    frag.masked("sync-decoder-panicked(C09)");
                    continue;
                }
            };
            for (id, fv) in fs {
                if id % 2 != 0 {
                    frag.count(&format!("async_{}.unknown_field.{}", wp.name(), fv.tt().name()));
                }
            }
            for sched in scheds.iter().take(if b.len() <= 48 { usize::MAX } else { 8 }) {
                sub_mark(&format!("async_{} partial {}", wp.name(), sched.render()));
                match catch(|| async_run(wp, &b, TT::Struct, None, choice, sched, true)) {
                    Ok(a) => compare(frag, wp, "partial", &b, &s, a, sched, &case),
                    Err(p) => frag.violation(&format!("c12|async_{}|panic|{}|{}", wp.name(), p.site(), p.class()), &format!("{} {}", p.location, p.message), case()),
                }
            }
        }
        // faulted inputs: async must fail whenever sync fails (and agree when both succeed)
        if with_faults && b.len() <= 200 {
            let faults = enumerate(wp.wire(), &b, &layout, &FaultCfg { all_bits_upto: 64, sample_bits: 64, truncations: true }, &mut rng);
            for (k, f) in faults.iter().enumerate() {
                let sched = match k % 3 {
                    0 => Schedule::all_at_once(),
                    1 => Schedule::byte_at_a_time(),
                    _ => Schedule { tail: 3, pending_at: vec![0, 2, 3], ..Default::default() },
                };
                let fcase = || json!({"idx": idx, "wp": wp.name(), "tt": v.tt() as u8, "input_hex": hex(&f.bytes), "fault": f.desc, "base_hex": hex(&b)});
                let s = match catch(|| sync_full(wp, &f.bytes, v.tt(), Some(v), choice)) {
                    Ok(s) => s,
                    Err(_) => {
                        frag.masked("sync-decoder-panicked(C09)");
                        continue;
                    }
                };
                if matches!(&s.0, Err(e) if e.contains("TooBig") || e.contains("TooDeep")) {
                    continue;
                }
                sub_mark(&format!("async_{} fault {} {}", wp.name(), f.desc, hex(&f.bytes[..f.bytes.len().min(48)])));
                match catch(|| async_run(wp, &f.bytes, v.tt(), Some(v), choice, &sched, false)) {
                    Ok(a) => {
                        if matches!(&a.out, Ok(Err(e)) if e.contains("TooBig") || e.contains("TooDeep")) {
                            continue;
                        }
                        compare(frag, wp, "faulted", &f.bytes, &s, a, &sched, &fcase)
                    }
                    Err(p) => frag.violation(&format!("c12|async_{}|panic|{}|{}", wp.name(), p.site(), p.class()), &format!("{} {}", p.location, p.message), fcase()),
                }
            }
        }
    }
}

fn directed() -> Vec<TVal> {
    let mut v: Vec<TVal> = directed_values().into_iter().map(|x| x.1).filter(|v| refmodel::tcodec::encode(refmodel::tcodec::Proto::Binary, v).len() <= 6000).collect();
    // every wire type as an unknown (odd id) field between known (even id) ones
    for tt in ALL_TT {
        let mut rng = Rng::new(tt as u64 + 77);
        let mut g = Gen::new(&mut rng, GenCfg { max_depth: 3, leaf_budget: 12, big_strings: false, max_container: 4, ..Default::default() });
        let x = g.gen_val(tt, 1);
        v.push(TVal::Struct(vec![(2, TVal::I32(5)), (3, x.clone()), (4, TVal::Binary(b"kept".to_vec())), (5, x), (6, TVal::Bool(true))]));
    }
    v
}

impl Check for C12 {
    fn id(&self) -> &'static str {
        "c12"
    }
    fn rule(&self) -> String {
        "case = (input bytes, delivery schedule). Inputs: reference encodings of directed + random value trees (binary, binary_le, compact) and their fault enumerations (truncations, bit flips, length/count/type corruptions). Schedules: all-at-once, one byte at a time, Pending before every read, and for every message <= 48 bytes EVERY one- and two-split schedule (exhaustive sub-space); longer messages: splits inside every multi-byte header item, geometric chunks, random splits + Pending injections. Oracle: async result == in-memory result (value on success, error whenever in-memory errors), bytes handed out by the stream == bytes the in-memory decoder consumed (an 8-byte sentinel after the message must stay unread), poll_read calls <= 4 x len + 64. The partial reader skips odd field ids so the async skipper runs on every wire type. distinct = structural hashes of non-trivial values".into()
    }
    fn ncases(&self, ctx: &Ctx) -> u64 {
        directed().len() as u64 + ctx.scale(500, 60_000)
    }
    fn run_case(&self, ctx: &Ctx, idx: u64, frag: &mut Frag) {
        let d = directed();
        let v = if (idx as usize) < d.len() {
            d[idx as usize].clone()
        } else {
            let mut rng = Rng::new(ctx.seed ^ 0xC12 ^ idx.wrapping_mul(0x9E37_79B9_7F4A_7C15));
            let small = rng.chance(2, 3);
            let mut g = Gen::new(&mut rng, GenCfg { max_depth: 4, leaf_budget: if small { 6 } else { 40 }, big_strings: false, max_container: if small { 3 } else { 16 }, ..Default::default() });
            g.gen_top()
        };
        if frag.samples.len() < 2 && idx % 29 == 0 {
            frag.sample(json!({"idx": idx, "value": v.render(140), "schedules": "all-at-once, byte-at-a-time, pending-always, all 1- and 2-split schedules if <= 48 bytes"}));
        }
        check_value(ctx, &v, frag, idx, idx % 4 == 0);
    }
    fn replay(&self, ctx: &Ctx, case: &Value, frag: &mut Frag) -> bool {
        let b = unhex(case["input_hex"].as_str().unwrap_or(""));
        let tt = TT::from_binary_code(case["tt"].as_u64().unwrap_or(12) as u8).unwrap_or(TT::Struct);
        let wpn = case["wp"].as_str().unwrap_or("binary");
        let wp = SAFE_WP.iter().copied().find(|w| w.name() == wpn).unwrap_or(WP::Binary);
        let mut rng = Rng::new(ctx.seed);
        let scheds = schedules_for(b.len(), &mut rng, &[], true, frag);
        for partial in [false, true] {
            let s = if partial { sync_partial(wp, &b, 0) } else { sync_full(wp, &b, tt, None, 0) };
            for sched in &scheds {
                let a = async_run(wp, &b, tt, None, 0, sched, partial);
                compare(frag, wp, if partial { "partial" } else { "full" }, &b, &s, a, sched, &|| case.clone());
            }
        }
        true
    }
    fn finish(&self, _ctx: &Ctx, r: &mut Report, deaths: &[Death]) {
        deaths_as_violations(r, deaths);
        r.exhaustive = Some(false);
        r.extra.insert("exhaustive_subspaces".into(), json!(["all one- and two-split delivery schedules of every message <= 48 bytes in this run"]));
        r.assume("both sides walk the same primitive read sequence (same API variants); a defect present in both the sync and the async reader is not a C12 observation");
        r.assume("bytes-consumed is judged only when decoding succeeds (an erroneous message has no defined end)");
        r.floor("schedules_enumerated_exhaustively", 10_000);
        r.floor("messages_with_exhaustive_1_2_split_schedules", 50);
        for wp in SAFE_WP {
            let who = format!("async_{}", wp.name());
            r.floor(&format!("{}.full", who), 5_000);
            r.floor(&format!("{}.partial", who), 2_000);
            r.floor(&format!("{}.faulted", who), 2_000);
            r.floor(&format!("{}.agree_err", who), 500);
            r.floor(&format!("{}.pending_injections", who), 1_000);
            for tt in ALL_TT {
                r.floor(&format!("{}.unknown_field.{}", who, tt.name()), 2);
            }
        }
    }
}
