//! C01 — Thrift runtime round trip on every protocol and buffer kind.

use monitors::driver::{Check, deaths_as_violations, sub_mark};
use monitors::evidence::{Ctx, Frag, Report};
use monitors::run::{Death, catch};
use refmodel::rng::{Rng, hex, unhex};
use refmodel::tcodec::{Proto, decode_exact, encode};
use refmodel::tval::{Gen, GenCfg, TT, TVal, directed_values};
use serde_json::{Value, json};

use pcodec::codecs::{ALL_BK, ALL_WP, BK, WP, read_seq, write_seq};
use pcodec::interp::Ops;
use pcodec::oracle::diff;

pub struct C01;

pub fn vals_to_json(vals: &[TVal]) -> Value {
    json!(
        vals.iter()
            .map(|v| json!({"tt": v.tt() as u8, "binary_hex": hex(&encode(Proto::Binary, v)), "render": v.render(200)}))
            .collect::<Vec<_>>()
    )
}

pub fn vals_from_json(j: &Value) -> Option<Vec<TVal>> {
    let mut out = vec![];
    for x in j.as_array()? {
        let tt = TT::from_binary_code(x["tt"].as_u64()? as u8)?;
        let b = unhex(x["binary_hex"].as_str()?);
        out.push(decode_exact(Proto::Binary, tt, &b).ok()?);
    }
    Some(out)
}

pub fn gen_seq(ctx: &Ctx, idx: u64, salt: u64) -> Vec<TVal> {
    let directed = directed_values();
    let d = directed.len() as u64;
    if idx < d {
        return vec![directed[idx as usize].1.clone()];
    }
    if idx < 2 * d {
        // directed values back to back (state carried from one to the next)
        let i = (idx - d) as usize;
        return vec![
            directed[i].1.clone(),
            directed[(i + 1) % directed.len()].1.clone(),
            directed[(i + 7) % directed.len()].1.clone(),
        ];
    }
    let mut rng = Rng::new(ctx.seed ^ salt ^ idx.wrapping_mul(0x9E37_79B9_7F4A_7C15));
    let k = 1 + rng.usize_below(5);
    let cfg = GenCfg {
        max_depth: if ctx.thorough() { 8 } else { 5 },
        leaf_budget: 120,
        ..GenCfg::default()
    };
    let mut g = Gen::new(&mut rng, cfg);
    (0..k).map(|_| g.gen_top()).collect()
}

fn check_one(
    wp: WP,
    bk: BK,
    vals: &[TVal],
    frag: &mut Frag,
    choice: u64,
) -> Result<Vec<u8>, (String, String)> {
    let mut ops = Ops::default();
    ops.choice = choice;
    sub_mark(&format!("{}/{} write", wp.name(), bk.name()));
    let w = catch(|| write_seq(wp, bk, vals, &mut ops));
    ops.flush_into(frag, &format!("{}", wp.name()));
    let w = match w {
        Err(p) => {
            return Err((
                format!("panic|write|{}|{}", p.site(), p.class()),
                format!("writer panicked at {}: {}", p.location, p.message),
            ));
        }
        Ok(Err(e)) => return Err((format!("write-error|{}", e.chars().take(40).collect::<String>()), e)),
        Ok(Ok(w)) => w,
    };
    if w.zc_nodes > 0 {
        frag.add(&format!("{}.zero_copy_nodes", wp.name()), w.zc_nodes as u64);
    }
    if w.ends.last().copied().unwrap_or(0) != w.bytes.len() {
        return Err((
            "written-length-accounting".into(),
            format!("buffer holds {} bytes but positions say {:?}", w.bytes.len(), w.ends),
        ));
    }
    // continuing reader
    let tts: Vec<TT> = vals.iter().map(|v| v.tt()).collect();
    let mut rops = Ops::default();
    rops.choice = choice ^ 0x55;
    sub_mark(&format!("{}/{} read", wp.name(), bk.name()));
    let rs = catch(|| read_seq(wp, &w.bytes, &tts, vals, &mut rops));
    rops.flush_into(frag, &format!("{}", wp.name()));
    let rs = match rs {
        Err(p) => {
            return Err((
                format!("panic|read|{}|{}", p.site(), p.class()),
                format!("reader panicked at {}: {}", p.location, p.message),
            ));
        }
        Ok(r) => r,
    };
    for (i, v) in vals.iter().enumerate() {
        let r = match rs.get(i) {
            Some(r) => r,
            None => return Err(("read-stopped-early".into(), format!("value {} not read", i))),
        };
        match &r.val {
            Err(e) => {
                return Err((
                    "read-error-on-own-output".into(),
                    format!("value {} of {}: {:?}", i, vals.len(), e),
                ));
            }
            Ok(got) => {
                if let Some(d) = diff(&v.norm_empty_maps(), &got.norm_empty_maps()) {
                    let which = if i == 0 { "first" } else { "following" };
                    return Err((
                        format!("mismatch|{}|{}", d.class, which),
                        format!(
                            "value {} differs at {}: expected {} got {}",
                            i, d.path, d.expected, d.got
                        ),
                    ));
                }
            }
        }
        if r.pos != w.ends[i] {
            return Err((
                "position".into(),
                format!("after value {} reader consumed {} bytes, writer wrote {}", i, r.pos, w.ends[i]),
            ));
        }
    }
    // fresh reader at each offset must agree with the continuing reader
    if vals.len() > 1 {
        for i in 1..vals.len() {
            let off = w.ends[i - 1];
            let mut fops = Ops::default();
            fops.choice = choice ^ 0xaa;
            let fr = catch(|| read_seq(wp, &w.bytes[off..], &tts[i..i + 1], &vals[i..i + 1], &mut fops));
            match fr {
                Err(p) => {
                    return Err((
                        format!("panic|fresh-read|{}|{}", p.site(), p.class()),
                        format!("fresh reader panicked at {}: {}", p.location, p.message),
                    ));
                }
                Ok(fr) => match fr.first().map(|x| &x.val) {
                    Some(Ok(got)) => {
                        if got.norm_empty_maps() != vals[i].norm_empty_maps() {
                            return Err((
                                "fresh-reader-differs".into(),
                                format!("value {} read by a fresh reader differs", i),
                            ));
                        }
                    }
                    other => {
                        return Err((
                            "fresh-reader-error".into(),
                            format!("value {}: {:?}", i, other),
                        ));
                    }
                },
            }
        }
        frag.count(&format!("{}.fresh_reader_compared", wp.name()));
    }
    Ok(w.bytes)
}

pub fn check_seq(vals: &[TVal], frag: &mut Frag, choice: u64, idx: u64) {
    frag.eval();
    let mut nontriv = false;
    for v in vals {
        if v.nontrivial() {
            nontriv = true;
        }
    }
    if nontriv {
        let mut h = 0u64;
        for v in vals {
            h = h.rotate_left(7) ^ v.hash64();
        }
        frag.distinct(h);
    }
    if vals.len() > 1 {
        frag.count("sequences_of_2_or_more");
    }
    for wp in ALL_WP {
        let mut fails: Vec<(BK, String, String)> = vec![];
        let mut outs: Vec<Vec<u8>> = vec![];
        for bk in ALL_BK {
            match check_one(wp, bk, vals, frag, choice) {
                Ok(b) => outs.push(b),
                Err((k, what)) => fails.push((bk, k, what)),
            }
            frag.count(&format!("{}.{}.sequences", wp.name(), bk.name()));
        }
        if outs.len() == 3 && (outs[0] != outs[1] || outs[1] != outs[2]) {
            // not part of the statement: a lead, not a verdict
            frag.count(&format!("{}.buffer_kinds_wrote_different_bytes(lead-only)", wp.name()));
        }
        if fails.is_empty() {
            continue;
        }
        let same = fails.len() == 3 && fails.iter().all(|f| f.1 == fails[0].1);
        if same {
            let (_, k, what) = &fails[0];
            frag.violation(
                &format!("c01|{}|bk=all|{}", wp.name(), k),
                &format!("{} (every buffer kind): {}", wp.name(), what),
                json!({"idx": idx, "wp": wp.name(), "bk": "all", "choice": choice, "vals": vals_to_json(vals)}),
            );
        } else {
            for (bk, k, what) in &fails {
                frag.violation(
                    &format!("c01|{}|bk={}|{}", wp.name(), bk.name(), k),
                    &format!("{} on {}: {}", wp.name(), bk.name(), what),
                    json!({"idx": idx, "wp": wp.name(), "bk": bk.name(), "choice": choice, "vals": vals_to_json(vals)}),
                );
            }
        }
    }
}

impl Check for C01 {
    fn id(&self) -> &'static str {
        "c01"
    }
    fn rule(&self) -> String {
        "cases = sequences of 1..5 Thrift value trees (seed-independent directed shapes + random trees, depth<=5 quick / 8 thorough) written back to back by ONE writer instance per (protocol in {binary,binary_le,compact,unchecked}) x (buffer in {BytesMut, LinkedBytes zc off, LinkedBytes zc on}) and read back by ONE reader and by fresh readers at each offset; distinct = distinct structural hashes of sequences containing a value with >=1 container/struct and >=3 leaves".into()
    }
    fn ncases(&self, ctx: &Ctx) -> u64 {
        2 * directed_values().len() as u64 + ctx.scale(20_000, 1_500_000)
    }
    fn label(&self, _ctx: &Ctx, idx: u64) -> String {
        format!("seq{}", idx)
    }
    fn run_case(&self, ctx: &Ctx, idx: u64, frag: &mut Frag) {
        let vals = gen_seq(ctx, idx, 0xC01);
        if frag.samples.is_empty() && idx % 97 == 3 {
            frag.sample(json!({"idx": idx, "values": vals.iter().map(|v| v.render(160)).collect::<Vec<_>>()}));
        }
        check_seq(&vals, frag, ctx.seed ^ idx, idx);
    }
    fn replay(&self, _ctx: &Ctx, case: &Value, frag: &mut Frag) -> bool {
        match vals_from_json(&case["vals"]) {
            Some(vals) => {
                check_seq(&vals, frag, case["choice"].as_u64().unwrap_or(0), case["idx"].as_u64().unwrap_or(0));
                true
            }
            None => false,
        }
    }
    fn finish(&self, _ctx: &Ctx, r: &mut Report, deaths: &[Death]) {
        deaths_as_violations(r, deaths);
        r.assume("reference for equality is the harness's own value tree; doubles compared by bit pattern; key/value types of EMPTY maps are not compared on compact (not on the wire)");
        r.assume("strings are read through read_string/read_faststr only when the written payload is valid UTF-8 (those APIs promise str)");
        for wp in ALL_WP {
            let n = wp.name();
            for op in [
                "write_struct_begin", "write_field_begin", "write_field_stop", "write_bool", "write_i8",
                "write_i16", "write_i32", "write_i64", "write_double", "write_bytes", "write_bytes_vec",
                "write_string", "write_faststr", "write_uuid", "write_list_begin", "write_set_begin",
                "write_map_begin", "read_struct_begin", "read_field_begin", "read_bool", "read_i8",
                "read_i16", "read_i32", "read_i64", "read_double", "read_bytes", "read_bytes_vec",
                "read_string", "read_faststr", "read_uuid", "read_list_begin", "read_set_begin",
                "read_map_begin",
            ] {
                r.floor(&format!("{}.{}", n, op), 1);
            }
            for shape in [
                "sibling_after_nested", "bool_field", "double_val", "uuid_val", "container_0",
                "container_14", "container_15", "container_16", "map_key_scalar", "map_key_binary",
                "map_key_struct", "long_form_header", "neg_or_desc_id", "str_ge_4096",
            ] {
                r.floor(&format!("{}.{}", n, shape), 1);
            }
            r.floor(&format!("{}.zero_copy_nodes", n), 1);
            r.floor(&format!("{}.fresh_reader_compared", n), 1);
        }
        r.floor("sequences_of_2_or_more", 100);
    }
}
