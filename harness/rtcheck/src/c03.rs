//! C03 — Thrift wire format conforms to the Apache binary / compact specs.
//! The oracle is the independent reference codec of `refmodel::tcodec`.

use bytes::{Bytes, BytesMut};
use linkedbytes::LinkedBytes;
use monitors::aio::{Schedule, ScriptedReader, block_on};
use monitors::driver::{Check, deaths_as_violations, sub_mark};
use monitors::evidence::{Ctx, Frag, Report};
use monitors::run::{Death, catch};
use pilota::thrift::{
    ApplicationException, ApplicationExceptionKind, Message, TAsyncBinaryProtocol,
    TAsyncCompactProtocol, TAsyncInputProtocol, TInputProtocol, TMessageIdentifier, TMessageType,
    TOutputProtocol, TType,
    binary::TBinaryProtocol,
    binary_unsafe::{TBinaryUnsafeInputProtocol, TBinaryUnsafeOutputProtocol},
    compact::{TCompactInputProtocol, TCompactOutputProtocol},
};
use refmodel::rng::{Rng, hex};
use refmodel::tcodec::{
    Envelope, Knobs, Proto, decode, decode_envelope, encode, encode_envelope, encode_with,
};
use refmodel::tval::{Gen, GenCfg, TT, TVal, directed_values};
use serde_json::{Value, json};

use crate::c01::{vals_from_json, vals_to_json};
use pcodec::codecs::{ALL_BK, Reader, WP, flatten_linked, read_seq, write_seq};
use pcodec::interp::{Ops, from_ttype};
use pcodec::oracle::diff;

pub struct C03;

const CONF_WP: [WP; 3] = [WP::Binary, WP::Compact, WP::Unchecked];

const N_FIXED: u64 = 24; // exhaustive / directed table cases

fn min_value(tt: TT) -> TVal {
    match tt {
        TT::Bool => TVal::Bool(true),
        TT::I8 => TVal::I8(5),
        TT::I16 => TVal::I16(300),
        TT::I32 => TVal::I32(70000),
        TT::I64 => TVal::I64(1 << 40),
        TT::Double => TVal::Double(1.5f64.to_bits()),
        TT::Binary => TVal::Binary(b"ab".to_vec()),
        TT::Uuid => TVal::Uuid([3; 16]),
        TT::Struct => TVal::Struct(vec![(1, TVal::I8(1))]),
        TT::List => TVal::List(TT::I8, vec![TVal::I8(1)]),
        TT::Set => TVal::Set(TT::I8, vec![TVal::I8(1)]),
        TT::Map => TVal::Map(TT::I8, TT::I8, vec![(TVal::I8(1), TVal::I8(2))]),
    }
}

fn viol(frag: &mut Frag, key: &str, what: String, case: Value) {
    frag.violation(&format!("c03|{}", key), &what, case);
}

// ---------------------------------------------------------------------------
// A. values, both directions

fn check_value(v: &TVal, frag: &mut Frag, choice: u64, idx: u64) {
    frag.eval();
    if v.nontrivial() {
        frag.distinct(v.hash64());
    }
    let vals = std::slice::from_ref(v);
    // pilota -> reference
    for wp in CONF_WP {
        for bk in ALL_BK {
            let mut ops = Ops::default();
            ops.choice = choice;
            sub_mark(&format!("{}/{} pilota->ref", wp.name(), bk.name()));
            let w = match catch(|| write_seq(wp, bk, vals, &mut ops)) {
                Ok(Ok(w)) => w,
                Ok(Err(e)) => {
                    viol(frag, &format!("{}|write-error", wp.name()), e, json!({"idx": idx, "vals": vals_to_json(vals)}));
                    continue;
                }
                Err(p) => {
                    viol(
                        frag,
                        &format!("{}|panic|write|{}|{}", wp.name(), p.site(), p.class()),
                        format!("writer panicked at {}: {}", p.location, p.message),
                        json!({"idx": idx, "vals": vals_to_json(vals)}),
                    );
                    continue;
                }
            };
            frag.count(&format!("{}.pilota_to_ref", wp.name()));
            match decode(wp.wire(), v.tt(), &w.bytes) {
                Ok((got, n)) => {
                    if n != w.bytes.len() {
                        viol(
                            frag,
                            &format!("{}|pilota->ref|trailing-bytes", wp.name()),
                            format!("reference decoder consumed {} of {} bytes pilota wrote", n, w.bytes.len()),
                            json!({"idx": idx, "wp": wp.name(), "bk": bk.name(), "bytes": hex(&w.bytes), "vals": vals_to_json(vals)}),
                        );
                    } else if let Some(d) = diff(&v.norm_empty_maps(), &got.norm_empty_maps()) {
                        viol(
                            frag,
                            &format!("{}|pilota->ref|{}", wp.name(), d.class),
                            format!(
                                "bytes written by pilota {} decode (per spec) to a different value at {}: expected {} got {}",
                                wp.name(), d.path, d.expected, d.got
                            ),
                            json!({"idx": idx, "wp": wp.name(), "bk": bk.name(), "bytes": hex(&w.bytes), "vals": vals_to_json(vals)}),
                        );
                    }
                }
                Err(e) => viol(
                    frag,
                    &format!("{}|pilota->ref|undecodable|{:?}", wp.name(), e),
                    format!("bytes written by pilota {} are not a valid {} encoding: {:?}", wp.name(), wp.wire().name(), e),
                    json!({"idx": idx, "wp": wp.name(), "bk": bk.name(), "bytes": hex(&w.bytes), "vals": vals_to_json(vals)}),
                ),
            }
        }
    }
    // reference -> pilota, every alternative form
    let knob_sets: [(&str, Knobs); 5] = [
        ("canonical", Knobs::default()),
        ("long_field_headers", Knobs { long_field_headers: true, ..Default::default() }),
        ("long_list_headers", Knobs { long_list_headers: true, ..Default::default() }),
        ("true_byte_0x80", Knobs { true_byte: 0x80, ..Default::default() }),
        ("all_alt_true_0xff", Knobs { long_field_headers: true, long_list_headers: true, true_byte: 0xff }),
    ];
    for wp in CONF_WP {
        for (kname, k) in &knob_sets {
            let (b, _) = encode_with(wp.wire(), v, k);
            let mut ops = Ops::default();
            ops.choice = choice ^ 0x33;
            sub_mark(&format!("{} ref->pilota {}", wp.name(), kname));
            let r = catch(|| read_seq(wp, &b, &[v.tt()], vals, &mut ops));
            ops.flush_into(frag, wp.name());
            frag.count(&format!("{}.ref_to_pilota.{}", wp.name(), kname));
            let case = json!({"idx": idx, "wp": wp.name(), "knobs": kname, "bytes": hex(&b), "vals": vals_to_json(vals)});
            match r {
                Err(p) => viol(
                    frag,
                    &format!("{}|panic|read|{}|{}", wp.name(), p.site(), p.class()),
                    format!("reader panicked at {}: {}", p.location, p.message),
                    case,
                ),
                Ok(rs) => match rs.first() {
                    Some(r1) => match &r1.val {
                        Ok(got) => {
                            if let Some(d) = diff(&v.norm_empty_maps(), &got.norm_empty_maps()) {
                                viol(
                                    frag,
                                    &format!("{}|ref->pilota|{}|{}", wp.name(), kname, d.class),
                                    format!("spec-conforming bytes ({}) decode differently at {}: expected {} got {}", kname, d.path, d.expected, d.got),
                                    case,
                                );
                            } else if r1.pos != b.len() {
                                viol(
                                    frag,
                                    &format!("{}|ref->pilota|{}|consumed", wp.name(), kname),
                                    format!("pilota consumed {} of {} bytes", r1.pos, b.len()),
                                    case,
                                );
                            }
                        }
                        Err(e) => viol(
                            frag,
                            &format!("{}|ref->pilota|{}|rejected", wp.name(), kname),
                            format!("spec-conforming bytes ({}) rejected: {:?}", kname, e),
                            case,
                        ),
                    },
                    None => viol(frag, &format!("{}|ref->pilota|nothing-read", wp.name()), "no value read".into(), case),
                },
            }
        }
    }
}

// ---------------------------------------------------------------------------
// B. message envelope

fn mtype_of(t: u8) -> Option<TMessageType> {
    Some(match t {
        1 => TMessageType::Call,
        2 => TMessageType::Reply,
        3 => TMessageType::Exception,
        4 => TMessageType::OneWay,
        _ => return None,
    })
}

fn write_envelope(wp: WP, bk: usize, ident: &TMessageIdentifier) -> Result<Vec<u8>, String> {
    // bk: 0 BytesMut, 1 LinkedBytes zc off, 2 LinkedBytes zc on
    macro_rules! go {
        ($p:expr, $out:expr) => {{
            let mut p = $p;
            p.write_message_begin(ident).map_err(|e| format!("{}", e))?;
            p.write_message_end().map_err(|e| format!("{}", e))?;
            drop(p);
            Ok($out)
        }};
    }
    match (wp, bk) {
        (WP::Binary, 0) => {
            let mut b = BytesMut::new();
            go!(TBinaryProtocol::new(&mut b, false), b.to_vec())
        }
        (WP::Binary, z) => {
            let mut lb = LinkedBytes::new();
            go!(TBinaryProtocol::new(&mut lb, z == 2), flatten_linked(&lb, &[]).0)
        }
        (WP::Compact, 0) => {
            let mut b = BytesMut::new();
            go!(TCompactOutputProtocol::new(&mut b, false), b.to_vec())
        }
        (WP::Compact, z) => {
            let mut lb = LinkedBytes::new();
            go!(TCompactOutputProtocol::new(&mut lb, z == 2), flatten_linked(&lb, &[]).0)
        }
        (WP::Unchecked, 0) => {
            let size = 4 + 4 + ident.name.len() + 4;
            let mut b = BytesMut::zeroed(size);
            let idx;
            unsafe {
                let s: &'static mut [u8] = std::slice::from_raw_parts_mut(b.as_mut_ptr(), b.len());
                let mut p = TBinaryUnsafeOutputProtocol::new(&mut b, s, false);
                p.write_message_begin(ident).map_err(|e| format!("{}", e))?;
                idx = p.index();
            }
            Ok(b[..idx].to_vec())
        }
        (WP::Unchecked, z) => {
            use bytes::BufMut;
            let size = 4 + 4 + ident.name.len() + 4;
            let mut lb = LinkedBytes::with_capacity(size);
            unsafe {
                let l = lb.bytes_mut().len();
                let s: &'static mut [u8] = std::slice::from_raw_parts_mut(
                    lb.bytes_mut().as_mut_ptr().add(l),
                    lb.bytes_mut().capacity() - l,
                );
                let mut p = TBinaryUnsafeOutputProtocol::new(&mut lb, s, z == 2);
                p.write_message_begin(ident).map_err(|e| format!("{}", e))?;
                let idx = p.index();
                drop(p);
                lb.bytes_mut().advance_mut(idx);
            }
            Ok(flatten_linked(&lb, &[]).0)
        }
        _ => Err("n/a".into()),
    }
}

fn read_envelope_sync(wp: WP, b: &[u8]) -> Result<(TMessageIdentifier, usize), String> {
    let mut bytes = Bytes::copy_from_slice(b);
    let mut r = Reader::new(wp, &mut bytes);
    let m = r.p().read_message_begin().map_err(|e| format!("{}", e))?;
    r.p().read_message_end().map_err(|e| format!("{}", e))?;
    let c = r.consumed();
    Ok((m, c))
}

fn read_envelope_async(wp: WP, b: &[u8], sched: Schedule) -> Result<(TMessageIdentifier, usize), String> {
    let mut data = b.to_vec();
    data.extend_from_slice(&[0xEE; 8]); // sentinel that must stay unread
    let budget = 8 * data.len() + 64;
    match wp {
        WP::Binary => {
            let rd = ScriptedReader::new(data, sched);
            let mut p = TAsyncBinaryProtocol::new(rd);
            let r = block_on(async { p.read_message_begin().await }, budget).map_err(|e| format!("{:?}", e))?;
            let m = r.0.map_err(|e| format!("{}", e))?;
            // the reader is owned by the protocol; consumed bytes are observed
            // through a second scripted pass in C12. Here: value only.
            Ok((m, b.len()))
        }
        WP::Compact => {
            let rd = ScriptedReader::new(data, sched);
            let mut p = TAsyncCompactProtocol::new(rd);
            let r = block_on(async { p.read_message_begin().await }, budget).map_err(|e| format!("{:?}", e))?;
            let m = r.0.map_err(|e| format!("{}", e))?;
            Ok((m, b.len()))
        }
        _ => Err("n/a".into()),
    }
}

fn env_names() -> Vec<Vec<u8>> {
    let mut v: Vec<Vec<u8>> = vec![
        vec![],
        b"a".to_vec(),
        b"getUser".to_vec(),
        "méthode·名前🦀".as_bytes().to_vec(),
    ];
    for n in [127usize, 128, 4096, 4097] {
        v.push((0..n).map(|i| b'a' + (i % 26) as u8).collect());
    }
    v
}

fn env_seqs() -> Vec<i32> {
    let mut v = vec![0, 1, -1, i32::MIN, i32::MAX, 127, 128, 16383, 16384];
    for k in 0..31 {
        v.push(1 << k);
        v.push(-(1 << k));
        v.push((1 << k) - 1);
    }
    v
}

/// C04 over message envelopes: `message_begin_len + message_end_len` of every length
/// protocol against the bytes its writer produces (same names / sequence ids / message
/// types as the conformance cases above).
pub(crate) fn envelope_sizes(frag: &mut Frag) {
    use pilota::thrift::TLengthProtocol;
    for name in env_names() {
        for seq in env_seqs() {
            for mt in 1u8..=4 {
                let ident = TMessageIdentifier::new(
                    unsafe { faststr::FastStr::from_bytes_unchecked(Bytes::copy_from_slice(&name)) },
                    mtype_of(mt).unwrap(),
                    seq,
                );
                for wp in CONF_WP {
                    frag.eval();
                    frag.count(&format!("{}.envelope_len", wp.name()));
                    let case = json!({"envelope": {"name_len": name.len(), "mtype": mt, "seq": seq, "protocol": wp.name()}});
                    let reported = catch(|| match wp {
                        WP::Binary => {
                            let mut p = TBinaryProtocol::new((), false);
                            p.message_begin_len(&ident) + p.message_end_len()
                        }
                        WP::Compact => {
                            let mut p = TCompactOutputProtocol::new((), false);
                            p.message_begin_len(&ident) + p.message_end_len()
                        }
                        _ => {
                            let mut b = BytesMut::new();
                            let s: &'static mut [u8] = &mut [];
                            let mut p = unsafe { TBinaryUnsafeOutputProtocol::new(&mut b, s, false) };
                            p.message_begin_len(&ident) + p.message_end_len()
                        }
                    });
                    let written = catch(|| write_envelope(wp, 0, &ident));
                    match (reported, written) {
                        (Ok(r), Ok(Ok(w))) => {
                            if r != w.len() {
                                frag.violation(
                                    &format!("c04|{}|envelope|reported-vs-written", wp.name()),
                                    &format!("message_begin_len + message_end_len = {} but write_message_begin/_end wrote {} bytes (name {} bytes, type {}, seq {})", r, w.len(), name.len(), mt, seq),
                                    case.clone(),
                                );
                            }
                        }
                        (Err(p), _) | (_, Err(p)) => frag.violation(&format!("c04|{}|envelope|panic|{}", wp.name(), p.site()), &format!("{} {}", p.location, p.message), case.clone()),
                        (_, Ok(Err(e))) => frag.violation(&format!("c04|{}|envelope|write-error", wp.name()), &e, case.clone()),
                    }
                }
            }
        }
    }
}

fn check_envelopes(frag: &mut Frag) {
    let names = env_names();
    let seqs = env_seqs();
    for (ni, name) in names.iter().enumerate() {
        for (si, seq) in seqs.iter().enumerate() {
            // full product on the small names, a diagonal on the large ones
            if name.len() > 200 && si % 7 != ni % 7 {
                continue;
            }
            for mt in 1u8..=4 {
                frag.eval();
                frag.distinct(refmodel::rng::fnv1a(&[name.len() as u8, (name.len() >> 8) as u8, mt, *seq as u8, (*seq >> 8) as u8, (*seq >> 16) as u8, (*seq >> 24) as u8]));
                let env = Envelope { name: name.clone(), mtype: mt, seq: *seq };
                let ident = TMessageIdentifier::new(
                    unsafe { faststr::FastStr::from_bytes_unchecked(Bytes::copy_from_slice(name)) },
                    mtype_of(mt).unwrap(),
                    *seq,
                );
                let case = json!({"envelope": {"name_len": name.len(), "name_hex": hex(&name[..name.len().min(32)]), "mtype": mt, "seq": seq}});
                for wp in CONF_WP {
                    // pilota -> ref
                    for bk in 0..3 {
                        sub_mark(&format!("{} envelope write bk{}", wp.name(), bk));
                        match catch(|| write_envelope(wp, bk, &ident)) {
                            Ok(Ok(b)) => {
                                frag.count(&format!("{}.envelope.pilota_to_ref", wp.name()));
                                match decode_envelope(wp.wire(), &b) {
                                    Ok((e2, n)) if e2 == env && n == b.len() => {}
                                    other => viol(
                                        frag,
                                        &format!("{}|envelope|pilota->ref", wp.name()),
                                        format!("envelope written by pilota decodes (per spec) to {:?}; bytes {}", other.map(|x| (x.0.mtype, x.0.seq, x.0.name.len(), x.1)), hex(&b[..b.len().min(24)])),
                                        case.clone(),
                                    ),
                                }
                            }
                            Ok(Err(e)) => viol(frag, &format!("{}|envelope|write-error", wp.name()), e, case.clone()),
                            Err(p) => viol(frag, &format!("{}|envelope|panic|write|{}|{}", wp.name(), p.site(), p.class()), format!("{} {}", p.location, p.message), case.clone()),
                        }
                    }
                    // ref -> pilota (sync)
                    let b = encode_envelope(wp.wire(), &env);
                    sub_mark(&format!("{} envelope read", wp.name()));
                    match catch(|| read_envelope_sync(wp, &b)) {
                        Ok(Ok((m, n))) => {
                            frag.count(&format!("{}.envelope.ref_to_pilota", wp.name()));
                            if m.name.as_bytes() != &name[..] || m.message_type as u8 != mt || m.sequence_number != *seq || n != b.len() {
                                viol(
                                    frag,
                                    &format!("{}|envelope|ref->pilota|value", wp.name()),
                                    format!("read name_len={} type={:?} seq={} consumed={} of {}", m.name.len(), m.message_type, m.sequence_number, n, b.len()),
                                    case.clone(),
                                );
                            }
                        }
                        Ok(Err(e)) => viol(frag, &format!("{}|envelope|ref->pilota|rejected", wp.name()), e, case.clone()),
                        Err(p) => viol(frag, &format!("{}|envelope|panic|read|{}|{}", wp.name(), p.site(), p.class()), format!("{} {}", p.location, p.message), case.clone()),
                    }
                    // ref -> pilota (async readers exist for binary and compact)
                    if wp != WP::Unchecked && name.len() <= 200 {
                        for sched in [Schedule::all_at_once(), Schedule::byte_at_a_time()] {
                            match catch(|| read_envelope_async(wp, &b, sched.clone())) {
                                Ok(Ok((m, _))) => {
                                    frag.count(&format!("{}.envelope.ref_to_pilota_async", wp.name()));
                                    if m.name.as_bytes() != &name[..] || m.message_type as u8 != mt || m.sequence_number != *seq {
                                        viol(frag, &format!("{}|envelope|ref->pilota-async|value", wp.name()), format!("async read {:?}", (m.name.len(), m.message_type, m.sequence_number)), case.clone());
                                    }
                                }
                                Ok(Err(e)) => viol(frag, &format!("{}|envelope|ref->pilota-async|rejected", wp.name()), e, case.clone()),
                                Err(p) => viol(frag, &format!("{}|envelope|panic|read-async|{}|{}", wp.name(), p.site(), p.class()), format!("{} {}", p.location, p.message), case.clone()),
                            }
                        }
                    }
                }
            }
        }
    }
    // message-type codes 0..7: 1..4 valid, others rejected
    for code in 0u8..8 {
        for wp in CONF_WP {
            frag.eval();
            let env = Envelope { name: b"m".to_vec(), mtype: code, seq: 9 };
            let b = encode_envelope(wp.wire(), &env);
            let r = catch(|| read_envelope_sync(wp, &b));
            frag.count(&format!("{}.mtype_codes", wp.name()));
            let valid = (1..=4).contains(&code);
            match r {
                Ok(Ok((m, _))) => {
                    if !valid || m.message_type as u8 != code {
                        viol(frag, &format!("{}|mtype-code|accepted-invalid", wp.name()), format!("message type code {} read as {:?}", code, m.message_type), json!({"code": code, "bytes": hex(&b)}));
                    }
                }
                Ok(Err(e)) => {
                    if valid {
                        viol(frag, &format!("{}|mtype-code|rejected-valid", wp.name()), format!("message type code {} rejected: {}", code, e), json!({"code": code, "bytes": hex(&b)}));
                    }
                }
                Err(p) => viol(frag, &format!("{}|mtype-code|panic|{}|{}", wp.name(), p.site(), p.class()), format!("{} {}", p.location, p.message), json!({"code": code})),
            }
        }
    }
}

// ---------------------------------------------------------------------------
// C. ApplicationException

fn enc_msg<M: Message>(wp: WP, m: &M) -> Result<Vec<u8>, String> {
    match wp {
        WP::Binary => {
            let mut b = BytesMut::new();
            m.encode(&mut TBinaryProtocol::new(&mut b, false)).map_err(|e| format!("{}", e))?;
            Ok(b.to_vec())
        }
        WP::Compact => {
            let mut b = BytesMut::new();
            m.encode(&mut TCompactOutputProtocol::new(&mut b, false)).map_err(|e| format!("{}", e))?;
            Ok(b.to_vec())
        }
        _ => {
            let size = m.size(&mut TBinaryProtocol::new((), false));
            let mut b = BytesMut::zeroed(size);
            let idx;
            unsafe {
                let s: &'static mut [u8] = std::slice::from_raw_parts_mut(b.as_mut_ptr(), b.len());
                let mut p = TBinaryUnsafeOutputProtocol::new(&mut b, s, false);
                m.encode(&mut p).map_err(|e| format!("{}", e))?;
                idx = p.index();
            }
            Ok(b[..idx].to_vec())
        }
    }
}

fn dec_app(wp: WP, b: &[u8]) -> Result<(ApplicationException, usize), String> {
    let mut bytes = Bytes::copy_from_slice(b);
    match wp {
        // (the readers are dropped before the buffer is looked at again: the harness must
        // keep compiling if a reader grows a Drop impl)
        WP::Binary => {
            let a = {
                let mut p = TBinaryProtocol::new(&mut bytes, false);
                ApplicationException::decode(&mut p).map_err(|e| format!("{}", e))?
            };
            Ok((a, b.len() - bytes.len()))
        }
        WP::Compact => {
            let a = {
                let mut p = TCompactInputProtocol::new(&mut bytes);
                ApplicationException::decode(&mut p).map_err(|e| format!("{}", e))?
            };
            Ok((a, b.len() - bytes.len()))
        }
        _ => {
            let mut p = unsafe { TBinaryUnsafeInputProtocol::new(&mut bytes) };
            let a = ApplicationException::decode(&mut p).map_err(|e| format!("{}", e))?;
            let i = p.index();
            Ok((a, b.len() - bytes.len() + i))
        }
    }
}

fn dec_app_async(wp: WP, b: &[u8]) -> Result<ApplicationException, String> {
    let budget = 8 * b.len() + 64;
    match wp {
        WP::Binary => {
            let mut p = TAsyncBinaryProtocol::new(ScriptedReader::new(b.to_vec(), Schedule::byte_at_a_time()));
            block_on(async { ApplicationException::decode_async(&mut p).await }, budget)
                .map_err(|e| format!("{:?}", e))?
                .0
                .map_err(|e| format!("{}", e))
        }
        WP::Compact => {
            let mut p = TAsyncCompactProtocol::new(ScriptedReader::new(b.to_vec(), Schedule::byte_at_a_time()));
            block_on(async { ApplicationException::decode_async(&mut p).await }, budget)
                .map_err(|e| format!("{:?}", e))?
                .0
                .map_err(|e| format!("{}", e))
        }
        _ => Err("n/a".into()),
    }
}

fn check_app_exception(frag: &mut Frag, seed: u64) {
    let mut rng = Rng::new(seed ^ 0xA99);
    let msgs: Vec<String> = vec!["".into(), "boom".into(), "ünïcödé 🦀".into(), "x".repeat(127), "y".repeat(128), "z".repeat(5000)];
    let kinds: Vec<i32> = vec![0, 1, 2, 5, 6, 7, 10, 11, 12, -1, i32::MAX, i32::MIN, 1 << 20];
    for msg in &msgs {
        for kind in &kinds {
            for wp in CONF_WP {
                frag.eval();
                frag.distinct(refmodel::rng::fnv1a(format!("{}:{}:{}", msg.len(), kind, wp.name()).as_bytes()));
                let case = json!({"app_exception": {"msg_len": msg.len(), "kind": kind, "wp": wp.name()}});
                let a = ApplicationException::new(ApplicationExceptionKind::from_i32(*kind), msg.clone());
                // pilota -> ref : must be struct {1: string message, 2: i32 type}
                sub_mark("appexc encode");
                match catch(|| enc_msg(wp, &a)) {
                    Ok(Ok(b)) => {
                        frag.count(&format!("{}.appexc.pilota_to_ref", wp.name()));
                        let want = TVal::Struct(vec![(1, TVal::Binary(msg.as_bytes().to_vec())), (2, TVal::I32(*kind))]);
                        match decode(wp.wire(), TT::Struct, &b) {
                            Ok((got, n)) if got == want && n == b.len() => {}
                            other => viol(frag, &format!("{}|appexc|pilota->ref", wp.name()), format!("expected {} got {:?}", want.render(80), other.map(|x| x.0.render(80))), case.clone()),
                        }
                    }
                    Ok(Err(e)) => viol(frag, &format!("{}|appexc|encode-error", wp.name()), e, case.clone()),
                    Err(p) => viol(frag, &format!("{}|appexc|panic|encode|{}|{}", wp.name(), p.site(), p.class()), format!("{} {}", p.location, p.message), case.clone()),
                }
                // ref -> pilota: canonical, reordered, with unknown extra fields, either field missing
                let extra_tt = *rng.pick(&refmodel::tval::ALL_TT);
                let extra = {
                    let mut g = Gen::new(&mut rng, GenCfg { max_depth: 3, leaf_budget: 20, big_strings: false, ..Default::default() });
                    g.gen_val(extra_tt, 0)
                };
                let variants: Vec<(&str, TVal, Option<&str>, Option<i32>)> = vec![
                    ("canonical", TVal::Struct(vec![(1, TVal::Binary(msg.as_bytes().to_vec())), (2, TVal::I32(*kind))]), Some(msg), Some(*kind)),
                    ("reordered", TVal::Struct(vec![(2, TVal::I32(*kind)), (1, TVal::Binary(msg.as_bytes().to_vec()))]), Some(msg), Some(*kind)),
                    ("extra_before", TVal::Struct(vec![(-3, extra.clone()), (1, TVal::Binary(msg.as_bytes().to_vec())), (2, TVal::I32(*kind))]), Some(msg), Some(*kind)),
                    ("extra_between_after", TVal::Struct(vec![(1, TVal::Binary(msg.as_bytes().to_vec())), (3, extra.clone()), (2, TVal::I32(*kind)), (40, extra.clone())]), Some(msg), Some(*kind)),
                    ("message_missing", TVal::Struct(vec![(2, TVal::I32(*kind))]), None, Some(*kind)),
                    ("type_missing", TVal::Struct(vec![(1, TVal::Binary(msg.as_bytes().to_vec())), (7, extra.clone())]), Some(msg), None),
                    ("empty", TVal::Struct(vec![]), None, None),
                ];
                for (vname, tv, emsg, ekind) in variants {
                    let b = encode(wp.wire(), &tv);
                    sub_mark(&format!("appexc decode {} {}", wp.name(), vname));
                    let case2 = json!({"app_exception": {"variant": vname, "wp": wp.name(), "bytes": hex(&b[..b.len().min(64)]), "extra": extra.render(100)}});
                    let check = |a: &ApplicationException| -> Option<String> {
                        if let Some(m) = emsg {
                            if a.message().as_str() != m {
                                return Some(format!("message differs (len {} vs {})", a.message().len(), m.len()));
                            }
                        }
                        if let Some(k) = ekind {
                            if a.kind().as_i32() != k {
                                return Some(format!("type {} vs {}", a.kind().as_i32(), k));
                            }
                        }
                        None
                    };
                    match catch(|| dec_app(wp, &b)) {
                        Ok(Ok((a, n))) => {
                            frag.count(&format!("{}.appexc.ref_to_pilota.{}", wp.name(), vname));
                            if let Some(w) = check(&a) {
                                viol(frag, &format!("{}|appexc|ref->pilota|{}|value", wp.name(), vname), w, case2.clone());
                            } else if n != b.len() {
                                viol(frag, &format!("{}|appexc|ref->pilota|{}|consumed", wp.name(), vname), format!("consumed {} of {}", n, b.len()), case2.clone());
                            }
                        }
                        Ok(Err(e)) => viol(frag, &format!("{}|appexc|ref->pilota|{}|rejected", wp.name(), vname), e, case2.clone()),
                        Err(p) => viol(frag, &format!("{}|appexc|panic|decode|{}|{}", wp.name(), p.site(), p.class()), format!("{} {}", p.location, p.message), case2.clone()),
                    }
                    if wp != WP::Unchecked && msg.len() < 1000 {
                        match catch(|| dec_app_async(wp, &b)) {
                            Ok(Ok(a)) => {
                                frag.count(&format!("{}.appexc.ref_to_pilota_async", wp.name()));
                                if let Some(w) = check(&a) {
                                    viol(frag, &format!("{}|appexc|ref->pilota-async|{}|value", wp.name(), vname), w, case2.clone());
                                }
                            }
                            Ok(Err(e)) => viol(frag, &format!("{}|appexc|ref->pilota-async|{}|rejected", wp.name(), vname), e, case2.clone()),
                            Err(p) => viol(frag, &format!("{}|appexc|panic|decode-async|{}|{}", wp.name(), p.site(), p.class()), format!("{} {}", p.location, p.message), case2.clone()),
                        }
                    }
                }
            }
        }
    }
}

// ---------------------------------------------------------------------------
// D. exhaustive tables

fn check_all_i8(frag: &mut Frag) {
    for x in i8::MIN..=i8::MAX {
        let v = TVal::Struct(vec![(1, TVal::I8(x)), (2, TVal::List(TT::I8, vec![TVal::I8(x)]))]);
        check_value(&v, frag, x as u64, 0);
        frag.count("exhaustive.i8_values");
    }
}

fn check_i16_chunk(chunk: u64, frag: &mut Frag) {
    let lo = -32768i32 + (chunk as i32) * 4096;
    for x in lo..lo + 4096 {
        let x = x as i16;
        // as a value and as a field id (the previous field id varies too)
        let v = TVal::Struct(vec![(x, TVal::I16(x)), (x.wrapping_add(7), TVal::Bool(x & 1 == 0))]);
        check_value_light(&v, frag);
        frag.count("exhaustive.i16_values_and_ids");
    }
}

/// one buffer kind, canonical + long-header forms only (used by the 65 536-wide table)
fn check_value_light(v: &TVal, frag: &mut Frag) {
    frag.eval();
    let vals = std::slice::from_ref(v);
    for wp in CONF_WP {
        let mut ops = Ops::default();
        match catch(|| write_seq(wp, pcodec::codecs::BK::BytesMut, vals, &mut ops)) {
            Ok(Ok(w)) => match decode(wp.wire(), v.tt(), &w.bytes) {
                Ok((got, n)) if got == *v && n == w.bytes.len() => {}
                other => viol(frag, &format!("{}|pilota->ref|i16-table", wp.name()), format!("{} -> {:?}", v.render(80), other.map(|x| x.0.render(80))), json!({"vals": vals_to_json(vals)})),
            },
            Ok(Err(e)) => viol(frag, &format!("{}|write-error", wp.name()), e, json!({"vals": vals_to_json(vals)})),
            Err(p) => viol(frag, &format!("{}|panic|write|{}|{}", wp.name(), p.site(), p.class()), format!("{} {}", p.location, p.message), json!({"vals": vals_to_json(vals)})),
        }
        for k in [Knobs::default(), Knobs { long_field_headers: true, ..Default::default() }] {
            let (b, _) = encode_with(wp.wire(), v, &k);
            let mut ops = Ops::default();
            match catch(|| read_seq(wp, &b, &[v.tt()], vals, &mut ops)) {
                Ok(rs) => match rs.first().map(|r| (&r.val, r.pos)) {
                    Some((Ok(got), pos)) if got == v && pos == b.len() => {}
                    other => viol(frag, &format!("{}|ref->pilota|i16-table", wp.name()), format!("{} -> {:?}", v.render(80), other.map(|x| format!("{:?}", x.0.as_ref().map(|t| t.render(80))))), json!({"vals": vals_to_json(vals), "bytes": hex(&b)})),
                },
                Err(p) => viol(frag, &format!("{}|panic|read|{}|{}", wp.name(), p.site(), p.class()), format!("{} {}", p.location, p.message), json!({"vals": vals_to_json(vals)})),
            }
        }
    }
}

/// outcome of feeding `bytes` = [header carrying a type code][payload] to pilota
/// at a given type-code position
#[derive(Debug, PartialEq)]
enum Outcome {
    /// accepted as type `t`, whole item consumed `n` bytes
    Accepted(Option<TT>, usize),
    Rejected,
    /// stop marker (field position only)
    Stop,
}

fn probe(wp: WP, pos: &str, bytes: &[u8]) -> Result<Outcome, monitors::run::PanicRec> {
    catch(|| {
        let mut b = Bytes::copy_from_slice(bytes);
        let mut r = Reader::new(wp, &mut b);
        let p = r.p();
        let res: Result<Option<TType>, pilota::thrift::ThriftException> = (|| {
            match pos {
                "field" => {
                    p.read_struct_begin()?;
                    let fi = p.read_field_begin()?;
                    if fi.field_type == TType::Stop {
                        return Ok(None);
                    }
                    p.skip(fi.field_type)?;
                    p.read_field_end()?;
                    Ok(Some(fi.field_type))
                }
                "list" => {
                    let li = p.read_list_begin()?;
                    for _ in 0..li.size {
                        p.skip(li.element_type)?;
                    }
                    p.read_list_end()?;
                    Ok(Some(li.element_type))
                }
                "set" => {
                    let li = p.read_set_begin()?;
                    for _ in 0..li.size {
                        p.skip(li.element_type)?;
                    }
                    p.read_set_end()?;
                    Ok(Some(li.element_type))
                }
                "mapkey" | "mapval" => {
                    let mi = p.read_map_begin()?;
                    for _ in 0..mi.size {
                        p.skip(mi.key_type)?;
                        p.skip(mi.value_type)?;
                    }
                    p.read_map_end()?;
                    Ok(Some(if pos == "mapkey" { mi.key_type } else { mi.value_type }))
                }
                _ => unreachable!(),
            }
        })();
        match res {
            Ok(None) => Outcome::Stop,
            Ok(Some(t)) => Outcome::Accepted(from_ttype(t), r.consumed()),
            Err(_) => Outcome::Rejected,
        }
    })
}

fn check_type_codes_binary(frag: &mut Frag) {
    for wp in [WP::Binary, WP::Unchecked] {
        for pos in ["field", "list", "set", "mapkey", "mapval"] {
            for code in 0u16..=255 {
                let code = code as u8;
                frag.eval();
                frag.count(&format!("exhaustive.binary_type_codes.{}", wp.name()));
                let spec_tt = TT::from_binary_code(code);
                // the unchecked reader's contract is well-formed input: only
                // spec-legal codes are fed to it
                if wp == WP::Unchecked && spec_tt.is_none() && !(pos == "field" && code == 0) {
                    continue;
                }
                let payload = spec_tt.map(|t| encode(Proto::Binary, &min_value(t))).unwrap_or_else(|| vec![0u8; 24]);
                let mut b = vec![];
                match pos {
                    "field" => {
                        b.push(code);
                        b.extend_from_slice(&[0, 1]);
                        b.extend_from_slice(&payload);
                    }
                    "list" | "set" => {
                        b.push(code);
                        b.extend_from_slice(&1i32.to_be_bytes());
                        b.extend_from_slice(&payload);
                    }
                    "mapkey" => {
                        b.push(code);
                        b.push(3);
                        b.extend_from_slice(&1i32.to_be_bytes());
                        b.extend_from_slice(&payload);
                        b.push(9);
                    }
                    _ => {
                        b.push(3);
                        b.push(code);
                        b.extend_from_slice(&1i32.to_be_bytes());
                        b.push(9);
                        b.extend_from_slice(&payload);
                    }
                }
                let full = b.len();
                b.extend_from_slice(&[0x5a; 4]); // trailing noise
                let case = json!({"wp": wp.name(), "position": pos, "code": code, "bytes": hex(&b)});
                match probe(wp, pos, &b) {
                    Err(p) => viol(frag, &format!("{}|type-code|panic|{}|{}", wp.name(), p.site(), p.class()), format!("{} {}", p.location, p.message), case),
                    Ok(o) => {
                        if pos == "field" && code == 0 {
                            if o != Outcome::Stop {
                                viol(frag, &format!("{}|type-code|stop-not-recognised", wp.name()), format!("{:?}", o), case);
                            }
                            continue;
                        }
                        match (spec_tt, o) {
                            (Some(t), Outcome::Accepted(Some(t2), n)) if t == t2 && n == full => {}
                            (None, Outcome::Rejected) => {}
                            (Some(_), o) => viol(frag, &format!("{}|type-code|{}|valid-code-mishandled", wp.name(), pos), format!("spec code {} -> {:?} (expected consumed {})", code, o, full), case),
                            (None, o) => viol(frag, &format!("{}|type-code|{}|invalid-code-accepted", wp.name(), pos), format!("code {} outside the specification -> {:?}", code, o), case),
                        }
                    }
                }
            }
        }
    }
}

fn check_type_nibbles_compact(frag: &mut Frag) {
    let wp = WP::Compact;
    for pos in ["field", "list", "set", "mapkey", "mapval"] {
        for nib in 0u8..16 {
            frag.eval();
            frag.count("exhaustive.compact_type_nibbles");
            let spec_tt = TT::from_compact_code(nib);
            let payload = match spec_tt {
                Some(TT::Bool) if pos == "field" => vec![],
                Some(t) => encode(Proto::Compact, &min_value(t)),
                None => vec![1u8; 24],
            };
            let mut b = vec![];
            match pos {
                "field" => {
                    b.push(0x10 | nib);
                    b.extend_from_slice(&payload);
                }
                "list" | "set" => {
                    b.push(0x10 | nib);
                    b.extend_from_slice(&payload);
                }
                "mapkey" => {
                    b.push(1);
                    b.push((nib << 4) | 3);
                    b.extend_from_slice(&payload);
                    b.push(9);
                }
                _ => {
                    b.push(1);
                    b.push((3 << 4) | nib);
                    b.push(9);
                    b.extend_from_slice(&payload);
                }
            }
            let full = b.len();
            b.extend_from_slice(&[0x5a; 4]);
            let case = json!({"wp": "compact", "position": pos, "nibble": nib, "bytes": hex(&b)});
            match probe(wp, pos, &b) {
                Err(p) => viol(frag, &format!("compact|type-code|panic|{}|{}", p.site(), p.class()), format!("{} {}", p.location, p.message), case),
                Ok(o) => {
                    if pos == "field" && nib == 0 {
                        // 0x10: delta 1, type 0 -> the low nibble 0 is STOP only when the whole byte is 0;
                        // pilota reads nibble 0 as stop. Not judged (byte 0x10 is not a legal header).
                        continue;
                    }
                    match (spec_tt, o) {
                        (Some(t), Outcome::Accepted(Some(t2), n)) if t == t2 && n == full => {}
                        (None, Outcome::Rejected) => {}
                        // nibble 0 in container headers: no element type 0 in the spec
                        (None, Outcome::Accepted(None, _)) if nib == 0 => viol(frag, &format!("compact|type-code|{}|invalid-code-accepted", pos), "nibble 0 accepted as an element type".into(), case),
                        (Some(_), o) => viol(frag, &format!("compact|type-code|{}|valid-code-mishandled", pos), format!("spec nibble {} -> {:?} (expected consumed {})", nib, o, full), case),
                        (None, o) => viol(frag, &format!("compact|type-code|{}|invalid-code-accepted", pos), format!("nibble {} outside the specification -> {:?}", nib, o), case),
                    }
                }
            }
        }
    }
}

fn int_boundaries() -> Vec<TVal> {
    let mut out = vec![];
    for k in 0..64u32 {
        for d in [-1i64, 0, 1] {
            let p = (1i128 << k) as i128 + d as i128;
            for s in [1i128, -1] {
                let x = p * s;
                if x >= i64::MIN as i128 && x <= i64::MAX as i128 {
                    out.push(TVal::I64(x as i64));
                    if x >= i32::MIN as i128 && x <= i32::MAX as i128 {
                        out.push(TVal::I32(x as i32));
                    }
                }
            }
        }
    }
    out.push(TVal::I64(i64::MIN));
    out.push(TVal::I64(i64::MAX));
    out
}

impl Check for C03 {
    fn id(&self) -> &'static str {
        "c03"
    }
    fn rule(&self) -> String {
        "oracle = independent reference codecs written from the Apache binary/compact spec texts (cross-checked against hand-computed spec vectors). Cases: value trees (directed + random) in both directions (pilota writes -> reference decodes; reference encodes in every legal alternative form -> pilota reads) on binary, compact and the unchecked binary codec, all buffer kinds; message envelopes (4 message types x seqid classes x names) sync and async; ApplicationException both directions incl. unknown/missing fields; exhaustive tables: all 256 i8, all 65536 i16 as value and field id, all 256 type bytes at 5 positions (binary), all 16 nibbles at 5 positions (compact), message type codes 0..7, every 2^k/2^k+-1 i32/i64. distinct = structural hashes of non-trivial value trees + distinct envelope/exception parameter tuples".into()
    }
    fn ncases(&self, ctx: &Ctx) -> u64 {
        N_FIXED + directed_values().len() as u64 + ctx.scale(4_000, 400_000)
    }
    fn label(&self, _ctx: &Ctx, idx: u64) -> String {
        match idx {
            0 => "table:i8".into(),
            1..=16 => format!("table:i16-chunk{}", idx - 1),
            17 => "table:binary-type-codes".into(),
            18 => "table:compact-type-nibbles".into(),
            19 => "envelopes".into(),
            20 => "application-exception".into(),
            21 => "int-boundaries".into(),
            _ => format!("value{}", idx),
        }
    }
    fn run_case(&self, ctx: &Ctx, idx: u64, frag: &mut Frag) {
        match idx {
            0 => check_all_i8(frag),
            1..=16 => check_i16_chunk(idx - 1, frag),
            17 => check_type_codes_binary(frag),
            18 => check_type_nibbles_compact(frag),
            19 => check_envelopes(frag),
            20 => check_app_exception(frag, ctx.seed),
            21 => {
                for v in int_boundaries() {
                    let s = TVal::Struct(vec![(1, v.clone()), (2, TVal::List(v.tt(), vec![v]))]);
                    check_value(&s, frag, 21, 21);
                    frag.count("exhaustive.int_boundaries");
                }
            }
            22 | 23 => {}
            _ => {
                let d = directed_values();
                let i = idx - N_FIXED;
                let v = if (i as usize) < d.len() {
                    d[i as usize].1.clone()
                } else {
                    let mut rng = Rng::new(ctx.seed ^ 0xC03 ^ idx.wrapping_mul(0x9E37_79B9_7F4A_7C15));
                    let mut g = Gen::new(&mut rng, GenCfg { max_depth: if ctx.thorough() { 7 } else { 5 }, leaf_budget: 100, ..Default::default() });
                    g.gen_top()
                };
                if frag.samples.len() < 2 && idx % 53 == 0 {
                    frag.sample(json!({"idx": idx, "value": v.render(200), "compact_hex": hex(&encode(Proto::Compact, &v)).chars().take(120).collect::<String>()}));
                }
                check_value(&v, frag, ctx.seed ^ idx, idx);
            }
        }
    }
    fn replay(&self, _ctx: &Ctx, case: &Value, frag: &mut Frag) -> bool {
        if let Some(vals) = vals_from_json(&case["vals"]) {
            for v in &vals {
                check_value(v, frag, case["idx"].as_u64().unwrap_or(0), case["idx"].as_u64().unwrap_or(0));
            }
            return true;
        }
        if case.get("envelope").is_some() {
            check_envelopes(frag);
            return true;
        }
        if case.get("app_exception").is_some() {
            check_app_exception(frag, 1);
            return true;
        }
        if case.get("position").is_some() {
            check_type_codes_binary(frag);
            check_type_nibbles_compact(frag);
            return true;
        }
        false
    }
    fn finish(&self, _ctx: &Ctx, r: &mut Report, deaths: &[Death]) {
        deaths_as_violations(r, deaths);
        r.exhaustive = Some(false);
        r.extra.insert("exhaustive_subspaces".into(), json!(["all i8 values", "all i16 values and field ids", "all 256 binary type bytes x 5 positions", "all 16 compact type nibbles x 5 positions", "message type codes 0..7"]));
        r.assume("compact element bool: reference encoder emits 1/2 only; whether 0 must be accepted as false is not judged");
        r.assume("compact container/field header with type nibble 1 vs 2 for bool element type: both accepted, not judged");
        r.assume("binary-LE is pilota-specific and not part of this conformance check (it is covered by C01/C04/C07)");
        r.assume("the unchecked reader is only fed spec-legal type codes (its contract is well-formed input)");
        r.floor("exhaustive.i8_values", 256);
        r.floor("exhaustive.i16_values_and_ids", 65536);
        r.floor("exhaustive.binary_type_codes.binary", 1280);
        r.floor("exhaustive.compact_type_nibbles", 80);
        r.floor("exhaustive.int_boundaries", 300);
        for wp in CONF_WP {
            let n = wp.name();
            r.floor(&format!("{}.pilota_to_ref", n), 1000);
            for k in ["canonical", "long_field_headers", "long_list_headers", "true_byte_0x80", "all_alt_true_0xff"] {
                r.floor(&format!("{}.ref_to_pilota.{}", n, k), 1000);
            }
            r.floor(&format!("{}.envelope.pilota_to_ref", n), 500);
            r.floor(&format!("{}.envelope.ref_to_pilota", n), 500);
            r.floor(&format!("{}.mtype_codes", n), 8);
            r.floor(&format!("{}.appexc.pilota_to_ref", n), 50);
            for vname in ["canonical", "reordered", "extra_before", "extra_between_after", "message_missing", "type_missing", "empty"] {
                r.floor(&format!("{}.appexc.ref_to_pilota.{}", n, vname), 50);
            }
        }
        for n in ["binary", "compact"] {
            r.floor(&format!("{}.envelope.ref_to_pilota_async", n), 200);
            r.floor(&format!("{}.appexc.ref_to_pilota_async", n), 50);
        }
    }
}
