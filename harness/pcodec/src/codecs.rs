//! Drivers that put pilota's four wire protocols on every supported buffer
//! kind behind one interface for the value interpreter.

use bytes::{BufMut, Bytes, BytesMut};
use linkedbytes::LinkedBytes;
use pilota::thrift::{
    TInputProtocol, TLengthProtocol, TOutputProtocol,
    binary::TBinaryProtocol,
    binary_le::TBinaryProtocol as TBinaryLeProtocol,
    binary_unsafe::{TBinaryUnsafeInputProtocol, TBinaryUnsafeOutputProtocol},
    compact::{TCompactInputProtocol, TCompactOutputProtocol},
};
use refmodel::tcodec::Proto;
use refmodel::tval::{TT, TVal};

use crate::interp::{Ops, ReadErr, len_val, read_val, write_val};

#[derive(Copy, Clone, Debug, PartialEq, Eq, Hash)]
pub enum WP {
    Binary,
    BinaryLe,
    Compact,
    Unchecked,
}

pub const ALL_WP: [WP; 4] = [WP::Binary, WP::BinaryLe, WP::Compact, WP::Unchecked];

impl WP {
    pub fn name(self) -> &'static str {
        match self {
            WP::Binary => "binary",
            WP::BinaryLe => "binary_le",
            WP::Compact => "compact",
            WP::Unchecked => "unchecked",
        }
    }
    /// wire format (what the reference codec must speak)
    pub fn wire(self) -> Proto {
        match self {
            WP::Binary | WP::Unchecked => Proto::Binary,
            WP::BinaryLe => Proto::BinaryLe,
            WP::Compact => Proto::Compact,
        }
    }
}

#[derive(Copy, Clone, Debug, PartialEq, Eq, Hash)]
pub enum BK {
    BytesMut,
    LinkedOff,
    LinkedOn,
}

pub const ALL_BK: [BK; 3] = [BK::BytesMut, BK::LinkedOff, BK::LinkedOn];

impl BK {
    pub fn name(self) -> &'static str {
        match self {
            BK::BytesMut => "bytesmut",
            BK::LinkedOff => "linked_zc_off",
            BK::LinkedOn => "linked_zc_on",
        }
    }
}

#[derive(Debug, Default, Clone)]
pub struct Written {
    pub bytes: Vec<u8>,
    /// cumulative length after each top-level value
    pub ends: Vec<usize>,
    /// number of zero-copy nodes inserted into the LinkedBytes
    pub zc_nodes: usize,
    pub zero_copy_len: usize,
}

pub fn flatten_linked(lb: &LinkedBytes, tail: &[u8]) -> (Vec<u8>, usize) {
    let mut out = Vec::new();
    let mut zc = 0;
    for n in lb.iter_list() {
        match n {
            linkedbytes::Node::BytesMut(_) => {}
            _ => zc += 1,
        }
        out.extend_from_slice(n.as_ref());
    }
    out.extend_from_slice(lb.bytes());
    out.extend_from_slice(tail);
    (out, zc)
}

fn linked_len(lb: &LinkedBytes) -> usize {
    lb.iter_list().map(|n| n.as_ref().len()).sum::<usize>() + lb.bytes().len()
}

/// size of a sequence under the checked binary length protocol (what a caller
/// of the unchecked writer uses to size its buffer)
pub fn binary_size(vals: &[TVal], ops: &mut Ops) -> usize {
    let mut p = TBinaryProtocol::new((), false);
    vals.iter().map(|v| len_val(&mut p, v, ops)).sum()
}

macro_rules! drive_bytesmut {
    ($mk:expr, $vals:expr, $ops:expr, $sizes:expr) => {{
        let mut buf = BytesMut::new();
        let mut ends = Vec::new();
        {
            let mut p = $mk(&mut buf);
            for v in $vals {
                if let Some(sz) = $sizes.as_mut() {
                    let mut lops = Ops::default();
                    lops.choice = $ops.choice;
                    sz.push(len_val(&mut p, v, &mut lops));
                    lops.flush_len_into($ops);
                }
                write_val(&mut p, v, $ops).map_err(|e| format!("{}", e))?;
                ends.push(p.buf_mut().len());
            }
        }
        Ok(Written {
            bytes: buf.to_vec(),
            ends,
            zc_nodes: 0,
            zero_copy_len: 0,
        })
    }};
}

macro_rules! drive_linked {
    ($mk:expr, $vals:expr, $ops:expr, $sizes:expr) => {{
        let mut lb = LinkedBytes::new();
        let mut ends = Vec::new();
        let zcl;
        {
            let mut p = $mk(&mut lb);
            for v in $vals {
                if let Some(sz) = $sizes.as_mut() {
                    let mut lops = Ops::default();
                    lops.choice = $ops.choice;
                    sz.push(len_val(&mut p, v, &mut lops));
                    lops.flush_len_into($ops);
                }
                write_val(&mut p, v, $ops).map_err(|e| format!("{}", e))?;
                ends.push(linked_len(&*p.buf_mut()));
            }
            zcl = p.zero_copy_len();
        }
        let (bytes, zc) = flatten_linked(&lb, &[]);
        Ok(Written {
            bytes,
            ends,
            zc_nodes: zc,
            zero_copy_len: zcl,
        })
    }};
}

/// Write `vals` back to back with ONE protocol instance on ONE buffer.
pub fn write_seq(wp: WP, bk: BK, vals: &[TVal], ops: &mut Ops) -> Result<Written, String> {
    write_seq_sized(wp, bk, vals, ops, &mut None)
}

/// As `write_seq`; when `sizes` is `Some`, the size of every value is first
/// computed WITH THE SAME protocol instance that then writes it (how a caller
/// that sizes its buffer first uses the API), and pushed to the vector.
pub fn write_seq_sized(
    wp: WP,
    bk: BK,
    vals: &[TVal],
    ops: &mut Ops,
    sizes: &mut Option<Vec<usize>>,
) -> Result<Written, String> {
    match (wp, bk) {
        (WP::Binary, BK::BytesMut) => {
            drive_bytesmut!(|b| TBinaryProtocol::new(b, false), vals, ops, sizes)
        }
        (WP::Binary, BK::LinkedOff) => {
            drive_linked!(|b| TBinaryProtocol::new(b, false), vals, ops, sizes)
        }
        (WP::Binary, BK::LinkedOn) => drive_linked!(|b| TBinaryProtocol::new(b, true), vals, ops, sizes),
        (WP::BinaryLe, BK::BytesMut) => {
            drive_bytesmut!(|b| TBinaryLeProtocol::new(b, false), vals, ops, sizes)
        }
        (WP::BinaryLe, BK::LinkedOff) => {
            drive_linked!(|b| TBinaryLeProtocol::new(b, false), vals, ops, sizes)
        }
        (WP::BinaryLe, BK::LinkedOn) => {
            drive_linked!(|b| TBinaryLeProtocol::new(b, true), vals, ops, sizes)
        }
        (WP::Compact, BK::BytesMut) => {
            drive_bytesmut!(|b| TCompactOutputProtocol::new(b, false), vals, ops, sizes)
        }
        (WP::Compact, BK::LinkedOff) => {
            drive_linked!(|b| TCompactOutputProtocol::new(b, false), vals, ops, sizes)
        }
        (WP::Compact, BK::LinkedOn) => {
            drive_linked!(|b| TCompactOutputProtocol::new(b, true), vals, ops, sizes)
        }
        (WP::Unchecked, _) => {
            let mut lops = Ops::default();
            lops.choice = ops.choice;
            let size = binary_size(vals, &mut lops);
            if let Some(sz) = sizes.as_mut() {
                // the unchecked output protocol's own length implementation,
                // fresh instance per value (it is stateless)
                for v in vals {
                    let mut l2 = Ops::default();
                    l2.choice = ops.choice;
                    sz.push(len_fresh(WP::Unchecked, v, &mut l2));
                    // keep chooser in step with the write walk below
                    let mut adv = Ops::default();
                    adv.choice = ops.choice;
                    let _ = adv;
                }
            }
            write_seq_unchecked(bk, vals, size, ops)
        }
    }
}

/// The unchecked writer inside its documented contract: the output window is
/// exactly `size` bytes (what the checked length protocol reported).
pub fn write_seq_unchecked(
    bk: BK,
    vals: &[TVal],
    size: usize,
    ops: &mut Ops,
) -> Result<Written, String> {
    match bk {
        BK::BytesMut => {
            // this variant indexes a slice aliasing `trans[..len]`
            let mut buf = BytesMut::zeroed(size);
            let mut ends = Vec::new();
            let idx;
            unsafe {
                let s: &'static mut [u8] =
                    std::slice::from_raw_parts_mut(buf.as_mut_ptr(), buf.len());
                let mut p = TBinaryUnsafeOutputProtocol::new(&mut buf, s, false);
                for v in vals {
                    write_val(&mut p, v, ops).map_err(|e| format!("{}", e))?;
                    ends.push(p.index());
                }
                idx = p.index();
            }
            Ok(Written {
                bytes: buf[..idx.min(buf.len())].to_vec(),
                ends,
                zc_nodes: 0,
                zero_copy_len: 0,
            })
        }
        BK::LinkedOff | BK::LinkedOn => {
            let mut lb = LinkedBytes::with_capacity(size);
            let mut ends = Vec::new();
            let idx;
            let zcl;
            unsafe {
                let l = lb.bytes_mut().len();
                let s: &'static mut [u8] = std::slice::from_raw_parts_mut(
                    lb.bytes_mut().as_mut_ptr().add(l),
                    lb.bytes_mut().capacity() - l,
                );
                let mut p = TBinaryUnsafeOutputProtocol::new(&mut lb, s, bk == BK::LinkedOn);
                for v in vals {
                    write_val(&mut p, v, ops).map_err(|e| format!("{}", e))?;
                    let i = p.index();
                    ends.push(linked_len(&*p.buf_mut()) + i);
                }
                idx = p.index();
                zcl = p.zero_copy_len();
                drop(p);
                // commit the tail the writer left in the spare capacity
                if lb.bytes_mut().capacity() - lb.bytes_mut().len() >= idx {
                    lb.bytes_mut().advance_mut(idx);
                } else {
                    return Err(format!(
                        "unchecked writer index {} beyond spare capacity {}",
                        idx,
                        lb.bytes_mut().capacity() - lb.bytes_mut().len()
                    ));
                }
            }
            let (bytes, zc) = flatten_linked(&lb, &[]);
            Ok(Written {
                bytes,
                ends,
                zc_nodes: zc,
                zero_copy_len: zcl,
            })
        }
    }
}

#[derive(Debug)]
pub struct ReadOne {
    pub val: Result<TVal, ReadErr>,
    /// bytes consumed from the start of the buffer after this value
    pub pos: usize,
}

/// One of pilota's four in-memory readers over a `Bytes`.
pub enum Reader<'a> {
    Bin(TBinaryProtocol<&'a mut Bytes>, usize),
    Le(TBinaryLeProtocol<&'a mut Bytes>, usize),
    Cmp(TCompactInputProtocol<&'a mut Bytes>, usize),
    Un(TBinaryUnsafeInputProtocol<'a>, usize),
}

impl<'a> Reader<'a> {
    pub fn new(wp: WP, b: &'a mut Bytes) -> Reader<'a> {
        let total = b.len();
        match wp {
            WP::Binary => Reader::Bin(TBinaryProtocol::new(b, false), total),
            WP::BinaryLe => Reader::Le(TBinaryLeProtocol::new(b, false), total),
            WP::Compact => Reader::Cmp(TCompactInputProtocol::new(b), total),
            WP::Unchecked => Reader::Un(unsafe { TBinaryUnsafeInputProtocol::new(b) }, total),
        }
    }
    pub fn p(&mut self) -> &mut dyn TInputProtocol<Buf = Bytes> {
        match self {
            Reader::Bin(p, _) => p,
            Reader::Le(p, _) => p,
            Reader::Cmp(p, _) => p,
            Reader::Un(p, _) => p,
        }
    }
    /// bytes consumed from the start of the buffer (for the unchecked reader:
    /// bytes advanced in the transport plus its index into the current window)
    pub fn consumed(&mut self) -> usize {
        match self {
            Reader::Bin(p, t) => *t - p.buf().len(),
            Reader::Le(p, t) => *t - p.buf().len(),
            Reader::Cmp(p, t) => *t - p.buf().len(),
            Reader::Un(p, t) => {
                let i = p.index();
                *t - p.buf().len() + i
            }
        }
    }
}

/// Read `tts.len()` values back to back with ONE reader instance.
pub fn read_seq(wp: WP, bytes: &[u8], tts: &[TT], hints: &[TVal], ops: &mut Ops) -> Vec<ReadOne> {
    let mut b = Bytes::copy_from_slice(bytes);
    let mut r = Reader::new(wp, &mut b);
    let mut out = Vec::new();
    for (i, tt) in tts.iter().enumerate() {
        let v = read_val(r.p(), *tt, hints.get(i), ops);
        let pos = r.consumed();
        let failed = v.is_err();
        out.push(ReadOne { val: v, pos });
        if failed {
            break;
        }
    }
    out
}

/// Length walk with a fresh length-protocol instance of the given protocol.
pub fn len_fresh(wp: WP, v: &TVal, ops: &mut Ops) -> usize {
    match wp {
        WP::Binary => len_val(&mut TBinaryProtocol::new((), false), v, ops),
        WP::BinaryLe => len_val(&mut TBinaryLeProtocol::new((), false), v, ops),
        WP::Compact => len_val(&mut TCompactOutputProtocol::new((), false), v, ops),
        WP::Unchecked => {
            // the unchecked output protocol's own TLengthProtocol impl
            let mut empty: [u8; 0] = [];
            let s: &'static mut [u8] =
                unsafe { std::slice::from_raw_parts_mut(empty.as_mut_ptr(), 0) };
            let mut p = unsafe { TBinaryUnsafeOutputProtocol::new((), s, false) };
            len_val(&mut p, v, ops)
        }
    }
}

// ---------------------------------------------------------------------------
// guarded exact-size windows for the unchecked writer (C11, memory layer 2)

pub const GUARD: usize = 64;
pub const GUARD_BYTE: u8 = 0xA5;

#[derive(Debug, Default, Clone)]
pub struct GuardReport {
    pub head_intact: bool,
    pub tail_intact: bool,
    /// bytes accounted for by the writer (committed + index) at the end
    pub accounted: usize,
}

/// The unchecked writer with an output window of exactly `size` bytes that is
/// embedded between two pattern-filled guard regions of the same allocation.
pub fn write_seq_unchecked_guarded(
    bk: BK,
    vals: &[TVal],
    size: usize,
    ops: &mut Ops,
) -> Result<(Written, GuardReport), String> {
    match bk {
        BK::BytesMut => {
            // Contract of this variant: `buf` aliases `trans` from offset 0
            // (it indexes both). Layout: [window: size][tail guard].
            let mut buf = BytesMut::zeroed(size + GUARD);
            for b in buf[size..].iter_mut() {
                *b = GUARD_BYTE;
            }
            let mut ends = Vec::new();
            let idx;
            unsafe {
                let s: &'static mut [u8] = std::slice::from_raw_parts_mut(buf.as_mut_ptr(), size);
                let mut p = TBinaryUnsafeOutputProtocol::new(&mut buf, s, false);
                for v in vals {
                    write_val(&mut p, v, ops).map_err(|e| format!("{}", e))?;
                    ends.push(p.index());
                }
                idx = p.index();
            }
            let rep = GuardReport {
                head_intact: true,
                tail_intact: buf[size..].iter().all(|b| *b == GUARD_BYTE),
                accounted: idx,
            };
            let bytes = buf[..idx.min(size)].to_vec();
            Ok((
                Written {
                    bytes,
                    ends,
                    zc_nodes: 0,
                    zero_copy_len: 0,
                },
                rep,
            ))
        }
        BK::LinkedOff | BK::LinkedOn => {
            // allocation = [window: size][tail guard: GUARD]; the writer is
            // told about the first `size` bytes only
            let mut lb = LinkedBytes::with_capacity(size + GUARD);
            let base: *mut u8 = lb.bytes_mut().as_mut_ptr();
            let cap = lb.bytes_mut().capacity();
            if cap < size + GUARD {
                return Err("allocation smaller than requested".into());
            }
            unsafe {
                std::ptr::write_bytes(base.add(size), GUARD_BYTE, cap - size);
            }
            let mut ends = Vec::new();
            let idx;
            let zcl;
            unsafe {
                let s: &'static mut [u8] = std::slice::from_raw_parts_mut(base, size);
                let mut p = TBinaryUnsafeOutputProtocol::new(&mut lb, s, bk == BK::LinkedOn);
                for v in vals {
                    write_val(&mut p, v, ops).map_err(|e| format!("{}", e))?;
                    let i = p.index();
                    ends.push(linked_len(&*p.buf_mut()) + i);
                }
                idx = p.index();
                zcl = p.zero_copy_len();
                drop(p);
            }
            // the tail guard: the last (cap - size) bytes of the allocation.
            // Zero-copy payloads do not consume window bytes, so the window is
            // never completely filled when nodes were inserted; everything
            // from base+size on must still be intact in every case.
            let tail_intact =
                unsafe { std::slice::from_raw_parts(base.add(size), cap - size) }.iter().all(|b| *b == GUARD_BYTE);
            let spare = lb.bytes_mut().capacity() - lb.bytes_mut().len();
            if spare < idx {
                return Err(format!("unchecked writer index {} beyond spare capacity {}", idx, spare));
            }
            unsafe { lb.bytes_mut().advance_mut(idx) };
            let (bytes, zc) = flatten_linked(&lb, &[]);
            let accounted = bytes.len();
            Ok((
                Written {
                    bytes,
                    ends,
                    zc_nodes: zc,
                    zero_copy_len: zcl,
                },
                GuardReport {
                    head_intact: true,
                    tail_intact,
                    accounted,
                },
            ))
        }
    }
}
