//! Value interpreter: drives pilota's primitive protocol API
//! (`TOutputProtocol::write_*`, `TInputProtocol::read_*`,
//! `TAsyncInputProtocol::read_*`, `TLengthProtocol::*_len`) from a dynamic value
//! tree, the way generated code does, and logs which methods were exercised.

use std::future::Future;
use std::pin::Pin;

use bytes::Bytes;
use faststr::FastStr;
use pilota::thrift::{
    TAsyncInputProtocol, TInputProtocol, TLengthProtocol, TListIdentifier, TMapIdentifier,
    TOutputProtocol, TSetIdentifier, TStructIdentifier, TType, ThriftException,
};
use refmodel::tval::{TT, TVal};

pub fn to_ttype(t: TT) -> TType {
    match t {
        TT::Bool => TType::Bool,
        TT::I8 => TType::I8,
        TT::Double => TType::Double,
        TT::I16 => TType::I16,
        TT::I32 => TType::I32,
        TT::I64 => TType::I64,
        TT::Binary => TType::Binary,
        TT::Struct => TType::Struct,
        TT::Map => TType::Map,
        TT::Set => TType::Set,
        TT::List => TType::List,
        TT::Uuid => TType::Uuid,
    }
}

pub fn from_ttype(t: TType) -> Option<TT> {
    Some(match t {
        TType::Bool => TT::Bool,
        TType::I8 => TT::I8,
        TType::Double => TT::Double,
        TType::I16 => TT::I16,
        TType::I32 => TT::I32,
        TType::I64 => TT::I64,
        TType::Binary => TT::Binary,
        TType::Struct => TT::Struct,
        TType::Map => TT::Map,
        TType::Set => TT::Set,
        TType::List => TT::List,
        TType::Uuid => TT::Uuid,
        TType::Stop | TType::Void => return None,
    })
}

macro_rules! ops {
    ($($name:ident),* $(,)?) => {
        #[allow(non_camel_case_types, dead_code)]
        #[derive(Copy, Clone, Debug)]
        #[repr(usize)]
        pub enum Op { $($name),* , _COUNT }
        pub const OP_NAMES: &[&str] = &[$(stringify!($name)),*];
    };
}

ops!(
    write_struct_begin,
    write_struct_end,
    write_field_begin,
    write_field_end,
    write_field_stop,
    write_bool,
    write_i8,
    write_i16,
    write_i32,
    write_i64,
    write_double,
    write_bytes,
    write_bytes_vec,
    write_string,
    write_faststr,
    write_uuid,
    write_list_begin,
    write_list_end,
    write_set_begin,
    write_set_end,
    write_map_begin,
    write_map_end,
    read_struct_begin,
    read_struct_end,
    read_field_begin,
    read_field_end,
    read_bool,
    read_i8,
    read_i16,
    read_i32,
    read_i64,
    read_double,
    read_bytes,
    read_bytes_vec,
    read_string,
    read_faststr,
    read_uuid,
    read_list_begin,
    read_list_end,
    read_set_begin,
    read_set_end,
    read_map_begin,
    read_map_end,
    struct_begin_len,
    struct_end_len,
    field_begin_len,
    field_end_len,
    field_stop_len,
    bool_len,
    i8_len,
    i16_len,
    i32_len,
    i64_len,
    double_len,
    bytes_len,
    bytes_vec_len,
    string_len,
    faststr_len,
    uuid_len,
    list_begin_len,
    list_end_len,
    set_begin_len,
    set_end_len,
    map_begin_len,
    map_end_len,
    // shape observations
    sibling_after_nested,
    bool_field,
    double_val,
    uuid_val,
    container_0,
    container_14,
    container_15,
    container_16,
    long_form_header,
    neg_or_desc_id,
    str_127,
    str_128,
    str_ge_4096,
    map_key_scalar,
    map_key_binary,
    map_key_struct,
    map_key_container
);

#[derive(Clone)]
pub struct Ops {
    pub n: [u64; Op::_COUNT as usize],
    /// API-variant chooser state
    pub choice: u64,
    /// current container/struct nesting of the read walk
    pub depth: usize,
}

impl Default for Ops {
    fn default() -> Self {
        Ops {
            n: [0; Op::_COUNT as usize],
            choice: 0,
            depth: 0,
        }
    }
}

impl Ops {
    #[inline]
    pub fn hit(&mut self, o: Op) {
        self.n[o as usize] += 1;
    }
    #[inline]
    pub fn pick(&mut self, n: u64) -> u64 {
        self.choice = self
            .choice
            .wrapping_mul(6364136223846793005)
            .wrapping_add(1442695040888963407);
        (self.choice >> 33) % n
    }
    /// add this walk's counters into another Ops (the chooser of `other` is
    /// left untouched)
    pub fn flush_len_into(&mut self, other: &mut Ops) {
        for (i, c) in self.n.iter().enumerate() {
            other.n[i] += *c;
        }
    }
    pub fn flush_into(&mut self, frag: &mut monitors::evidence::Frag, prefix: &str) {
        for (i, c) in self.n.iter().enumerate() {
            if *c > 0 {
                frag.add(&format!("{}.{}", prefix, OP_NAMES[i]), *c);
            }
        }
        self.n = [0; Op::_COUNT as usize];
    }
}

static SIDENT: TStructIdentifier = TStructIdentifier { name: "S" };

fn observe_shape(v: &TVal, ops: &mut Ops) {
    match v {
        TVal::Struct(fs) => {
            let mut last: i32 = 0;
            let mut prev_nested = false;
            for (id, fv) in fs {
                let d = *id as i32 - last;
                if !(1..15).contains(&d) {
                    ops.hit(Op::long_form_header);
                }
                if d <= 0 {
                    ops.hit(Op::neg_or_desc_id);
                }
                if prev_nested {
                    ops.hit(Op::sibling_after_nested);
                }
                prev_nested = matches!(fv, TVal::Struct(_));
                if matches!(fv, TVal::Bool(_)) {
                    ops.hit(Op::bool_field);
                }
                last = *id as i32;
            }
        }
        TVal::Double(_) => ops.hit(Op::double_val),
        TVal::Uuid(_) => ops.hit(Op::uuid_val),
        TVal::Binary(b) => match b.len() {
            127 => ops.hit(Op::str_127),
            128 => ops.hit(Op::str_128),
            n if n >= 4096 => ops.hit(Op::str_ge_4096),
            _ => {}
        },
        TVal::List(_, xs) | TVal::Set(_, xs) => container_size(xs.len(), ops),
        TVal::Map(k, _, es) => {
            container_size(es.len(), ops);
            if !es.is_empty() {
                match k {
                    TT::Binary => ops.hit(Op::map_key_binary),
                    TT::Struct => ops.hit(Op::map_key_struct),
                    TT::List | TT::Set | TT::Map => ops.hit(Op::map_key_container),
                    _ => ops.hit(Op::map_key_scalar),
                }
            }
        }
        _ => {}
    }
}

fn container_size(n: usize, ops: &mut Ops) {
    match n {
        0 => ops.hit(Op::container_0),
        14 => ops.hit(Op::container_14),
        15 => ops.hit(Op::container_15),
        16 => ops.hit(Op::container_16),
        _ => {}
    }
}

// ---------------------------------------------------------------------------
// write

pub fn write_val<P: TOutputProtocol + ?Sized>(
    p: &mut P,
    v: &TVal,
    ops: &mut Ops,
) -> Result<(), ThriftException> {
    observe_shape(v, ops);
    match v {
        TVal::Bool(b) => {
            ops.hit(Op::write_bool);
            p.write_bool(*b)
        }
        TVal::I8(x) => {
            ops.hit(Op::write_i8);
            p.write_i8(*x)
        }
        TVal::I16(x) => {
            ops.hit(Op::write_i16);
            p.write_i16(*x)
        }
        TVal::I32(x) => {
            ops.hit(Op::write_i32);
            p.write_i32(*x)
        }
        TVal::I64(x) => {
            ops.hit(Op::write_i64);
            p.write_i64(*x)
        }
        TVal::Double(bits) => {
            ops.hit(Op::write_double);
            p.write_double(f64::from_bits(*bits))
        }
        TVal::Uuid(u) => {
            ops.hit(Op::write_uuid);
            p.write_uuid(*u)
        }
        TVal::Binary(b) => {
            let utf8 = std::str::from_utf8(b).ok();
            let k = ops.pick(if utf8.is_some() { 4 } else { 2 });
            match k {
                0 => {
                    ops.hit(Op::write_bytes);
                    p.write_bytes(Bytes::copy_from_slice(b))
                }
                1 => {
                    ops.hit(Op::write_bytes_vec);
                    p.write_bytes_vec(b)
                }
                2 => {
                    ops.hit(Op::write_string);
                    p.write_string(utf8.unwrap())
                }
                _ => {
                    ops.hit(Op::write_faststr);
                    // FastStr backed by Bytes so the zero-copy path can take it
                    let fs = unsafe {
                        FastStr::from_bytes_unchecked(Bytes::copy_from_slice(b))
                    };
                    p.write_faststr(fs)
                }
            }
        }
        TVal::Struct(fs) => {
            ops.hit(Op::write_struct_begin);
            p.write_struct_begin(&SIDENT)?;
            for (id, fv) in fs {
                ops.hit(Op::write_field_begin);
                p.write_field_begin(to_ttype(fv.tt()), *id)?;
                write_val(p, fv, ops)?;
                ops.hit(Op::write_field_end);
                p.write_field_end()?;
            }
            ops.hit(Op::write_field_stop);
            p.write_field_stop()?;
            ops.hit(Op::write_struct_end);
            p.write_struct_end()
        }
        TVal::List(t, xs) => {
            ops.hit(Op::write_list_begin);
            p.write_list_begin(TListIdentifier::new(to_ttype(*t), xs.len()))?;
            for x in xs {
                write_val(p, x, ops)?;
            }
            ops.hit(Op::write_list_end);
            p.write_list_end()
        }
        TVal::Set(t, xs) => {
            ops.hit(Op::write_set_begin);
            p.write_set_begin(TSetIdentifier::new(to_ttype(*t), xs.len()))?;
            for x in xs {
                write_val(p, x, ops)?;
            }
            ops.hit(Op::write_set_end);
            p.write_set_end()
        }
        TVal::Map(k, vt, es) => {
            ops.hit(Op::write_map_begin);
            p.write_map_begin(TMapIdentifier::new(to_ttype(*k), to_ttype(*vt), es.len()))?;
            for (a, b) in es {
                write_val(p, a, ops)?;
                write_val(p, b, ops)?;
            }
            ops.hit(Op::write_map_end);
            p.write_map_end()
        }
    }
}

// ---------------------------------------------------------------------------
// length walk (mirrors write_val call for call; uses the same API-variant
// chooser sequence so `bytes_len` is paired with `write_bytes` etc.)

pub fn len_val<P: TLengthProtocol + ?Sized>(p: &mut P, v: &TVal, ops: &mut Ops) -> usize {
    match v {
        TVal::Bool(b) => {
            ops.hit(Op::bool_len);
            p.bool_len(*b)
        }
        TVal::I8(x) => {
            ops.hit(Op::i8_len);
            p.i8_len(*x)
        }
        TVal::I16(x) => {
            ops.hit(Op::i16_len);
            p.i16_len(*x)
        }
        TVal::I32(x) => {
            ops.hit(Op::i32_len);
            p.i32_len(*x)
        }
        TVal::I64(x) => {
            ops.hit(Op::i64_len);
            p.i64_len(*x)
        }
        TVal::Double(bits) => {
            ops.hit(Op::double_len);
            p.double_len(f64::from_bits(*bits))
        }
        TVal::Uuid(u) => {
            ops.hit(Op::uuid_len);
            p.uuid_len(*u)
        }
        TVal::Binary(b) => {
            let utf8 = std::str::from_utf8(b).ok();
            let k = ops.pick(if utf8.is_some() { 4 } else { 2 });
            match k {
                0 => {
                    ops.hit(Op::bytes_len);
                    p.bytes_len(b)
                }
                1 => {
                    ops.hit(Op::bytes_vec_len);
                    p.bytes_vec_len(b)
                }
                2 => {
                    ops.hit(Op::string_len);
                    p.string_len(utf8.unwrap())
                }
                _ => {
                    ops.hit(Op::faststr_len);
                    let fs = unsafe { FastStr::from_bytes_unchecked(Bytes::copy_from_slice(b)) };
                    p.faststr_len(&fs)
                }
            }
        }
        TVal::Struct(fs) => {
            ops.hit(Op::struct_begin_len);
            let mut n = p.struct_begin_len(&SIDENT);
            for (id, fv) in fs {
                ops.hit(Op::field_begin_len);
                n += p.field_begin_len(to_ttype(fv.tt()), Some(*id));
                n += len_val(p, fv, ops);
                ops.hit(Op::field_end_len);
                n += p.field_end_len();
            }
            ops.hit(Op::field_stop_len);
            n += p.field_stop_len();
            ops.hit(Op::struct_end_len);
            n += p.struct_end_len();
            n
        }
        TVal::List(t, xs) => {
            ops.hit(Op::list_begin_len);
            let mut n = p.list_begin_len(TListIdentifier::new(to_ttype(*t), xs.len()));
            for x in xs {
                n += len_val(p, x, ops);
            }
            ops.hit(Op::list_end_len);
            n + p.list_end_len()
        }
        TVal::Set(t, xs) => {
            ops.hit(Op::set_begin_len);
            let mut n = p.set_begin_len(TSetIdentifier::new(to_ttype(*t), xs.len()));
            for x in xs {
                n += len_val(p, x, ops);
            }
            ops.hit(Op::set_end_len);
            n + p.set_end_len()
        }
        TVal::Map(k, vt, es) => {
            ops.hit(Op::map_begin_len);
            let mut n = p.map_begin_len(TMapIdentifier::new(to_ttype(*k), to_ttype(*vt), es.len()));
            for (a, b) in es {
                n += len_val(p, a, ops);
                n += len_val(p, b, ops);
            }
            ops.hit(Op::map_end_len);
            n + p.map_end_len()
        }
    }
}

// ---------------------------------------------------------------------------
// read

/// Error of the read walk that is not a ThriftException from pilota.
#[derive(Debug)]
pub enum ReadErr {
    Thrift(String),
    /// pilota handed back a TType a value cannot have (Stop/Void) where a
    /// value type was required
    BadType(String),
    /// harness safety valve against absurd sizes (never hit on valid input)
    TooBig(usize),
    /// harness safety valve: the read walk itself recurses, hostile input may
    /// nest thousands of levels
    TooDeep,
}

pub const MAX_WALK_DEPTH: usize = 160;

impl From<ThriftException> for ReadErr {
    fn from(e: ThriftException) -> Self {
        ReadErr::Thrift(format!("{}", e))
    }
}

/// Maximum number of container elements the walk will try to read from one
/// header (hostile inputs can claim 2^31; the walk stops at the first failing
/// element anyway, this only bounds the harness's own Vec growth).
const MAX_ELEMS: usize = 1 << 22;

pub fn read_val<P: TInputProtocol + ?Sized>(
    p: &mut P,
    tt: TT,
    hint: Option<&TVal>,
    ops: &mut Ops,
) -> Result<TVal, ReadErr> {
    if matches!(tt, TT::Struct | TT::List | TT::Set | TT::Map) {
        if ops.depth >= MAX_WALK_DEPTH {
            return Err(ReadErr::TooDeep);
        }
        ops.depth += 1;
        let r = read_val_inner(p, tt, hint, ops);
        ops.depth -= 1;
        r
    } else {
        read_val_inner(p, tt, hint, ops)
    }
}

fn read_val_inner<P: TInputProtocol + ?Sized>(
    p: &mut P,
    tt: TT,
    hint: Option<&TVal>,
    ops: &mut Ops,
) -> Result<TVal, ReadErr> {
    Ok(match tt {
        TT::Bool => {
            ops.hit(Op::read_bool);
            TVal::Bool(p.read_bool()?)
        }
        TT::I8 => {
            ops.hit(Op::read_i8);
            TVal::I8(p.read_i8()?)
        }
        TT::I16 => {
            ops.hit(Op::read_i16);
            TVal::I16(p.read_i16()?)
        }
        TT::I32 => {
            ops.hit(Op::read_i32);
            TVal::I32(p.read_i32()?)
        }
        TT::I64 => {
            ops.hit(Op::read_i64);
            TVal::I64(p.read_i64()?)
        }
        TT::Double => {
            ops.hit(Op::read_double);
            TVal::Double(p.read_double()?.to_bits())
        }
        TT::Uuid => {
            ops.hit(Op::read_uuid);
            TVal::Uuid(p.read_uuid()?)
        }
        TT::Binary => {
            // read_string / read_faststr promise str: only used when the
            // expected payload is valid UTF-8
            let utf8 = match hint {
                Some(TVal::Binary(b)) => std::str::from_utf8(b).is_ok(),
                _ => false,
            };
            let k = ops.pick(if utf8 { 4 } else { 2 });
            match k {
                0 => {
                    ops.hit(Op::read_bytes);
                    TVal::Binary(p.read_bytes()?.to_vec())
                }
                1 => {
                    ops.hit(Op::read_bytes_vec);
                    TVal::Binary(p.read_bytes_vec()?)
                }
                2 => {
                    ops.hit(Op::read_string);
                    TVal::Binary(p.read_string()?.into_bytes())
                }
                _ => {
                    ops.hit(Op::read_faststr);
                    TVal::Binary(p.read_faststr()?.as_bytes().to_vec())
                }
            }
        }
        TT::Struct => {
            ops.hit(Op::read_struct_begin);
            p.read_struct_begin()?;
            let hint_fields = match hint {
                Some(TVal::Struct(fs)) => Some(fs),
                _ => None,
            };
            let mut fs = Vec::new();
            loop {
                ops.hit(Op::read_field_begin);
                let fi = p.read_field_begin()?;
                if fi.field_type == TType::Stop {
                    break;
                }
                let ft = from_ttype(fi.field_type)
                    .ok_or_else(|| ReadErr::BadType(format!("{:?}", fi.field_type)))?;
                let id = fi.id.unwrap_or(0);
                let h = hint_fields.and_then(|h| h.get(fs.len()).map(|x| &x.1));
                let v = read_val(p, ft, h, ops)?;
                ops.hit(Op::read_field_end);
                p.read_field_end()?;
                fs.push((id, v));
            }
            ops.hit(Op::read_struct_end);
            p.read_struct_end()?;
            TVal::Struct(fs)
        }
        TT::List | TT::Set => {
            let (et, n) = if tt == TT::List {
                ops.hit(Op::read_list_begin);
                let li = p.read_list_begin()?;
                (li.element_type, li.size)
            } else {
                ops.hit(Op::read_set_begin);
                let si = p.read_set_begin()?;
                (si.element_type, si.size)
            };
            let hint_elems = match hint {
                Some(TVal::List(_, xs)) | Some(TVal::Set(_, xs)) => Some(xs),
                _ => None,
            };
            let mut xs = Vec::new();
            if n > 0 {
                if n > MAX_ELEMS {
                    return Err(ReadErr::TooBig(n));
                }
                let et = from_ttype(et).ok_or_else(|| ReadErr::BadType(format!("{:?}", et)))?;
                for i in 0..n {
                    let h = hint_elems.and_then(|h| h.get(i));
                    xs.push(read_val(p, et, h, ops)?);
                }
                if tt == TT::List {
                    ops.hit(Op::read_list_end);
                    p.read_list_end()?;
                    TVal::List(et, xs)
                } else {
                    ops.hit(Op::read_set_end);
                    p.read_set_end()?;
                    TVal::Set(et, xs)
                }
            } else {
                // element type of an empty container: keep what the wire says
                // if it is a value type, else fall back to the hint/Bool
                let et2 = from_ttype(et).unwrap_or(TT::Bool);
                if tt == TT::List {
                    ops.hit(Op::read_list_end);
                    p.read_list_end()?;
                    TVal::List(et2, xs)
                } else {
                    ops.hit(Op::read_set_end);
                    p.read_set_end()?;
                    TVal::Set(et2, xs)
                }
            }
        }
        TT::Map => {
            ops.hit(Op::read_map_begin);
            let mi = p.read_map_begin()?;
            let hint_entries = match hint {
                Some(TVal::Map(_, _, es)) => Some(es),
                _ => None,
            };
            let mut es = Vec::new();
            if mi.size == 0 {
                ops.hit(Op::read_map_end);
                p.read_map_end()?;
                let kt = from_ttype(mi.key_type).unwrap_or(TT::Bool);
                let vt = from_ttype(mi.value_type).unwrap_or(TT::Bool);
                return Ok(TVal::Map(kt, vt, es));
            }
            if mi.size > MAX_ELEMS {
                return Err(ReadErr::TooBig(mi.size));
            }
            let kt = from_ttype(mi.key_type)
                .ok_or_else(|| ReadErr::BadType(format!("{:?}", mi.key_type)))?;
            let vt = from_ttype(mi.value_type)
                .ok_or_else(|| ReadErr::BadType(format!("{:?}", mi.value_type)))?;
            for i in 0..mi.size {
                let h = hint_entries.and_then(|h| h.get(i));
                let k = read_val(p, kt, h.map(|x| &x.0), ops)?;
                let v = read_val(p, vt, h.map(|x| &x.1), ops)?;
                es.push((k, v));
            }
            ops.hit(Op::read_map_end);
            p.read_map_end()?;
            TVal::Map(kt, vt, es)
        }
    })
}

// ---------------------------------------------------------------------------
// async read

pub fn read_val_async<'a, P: TAsyncInputProtocol>(
    p: &'a mut P,
    tt: TT,
    hint: Option<&'a TVal>,
    ops: &'a mut Ops,
) -> Pin<Box<dyn Future<Output = Result<TVal, ReadErr>> + 'a>> {
    Box::pin(async move {
        if matches!(tt, TT::Struct | TT::List | TT::Set | TT::Map) {
            if ops.depth >= MAX_WALK_DEPTH {
                return Err(ReadErr::TooDeep);
            }
            ops.depth += 1;
        }
        let r = read_val_async_inner(p, tt, hint, ops).await;
        if matches!(tt, TT::Struct | TT::List | TT::Set | TT::Map) {
            ops.depth -= 1;
        }
        r
    })
}

fn read_val_async_inner<'a, P: TAsyncInputProtocol>(
    p: &'a mut P,
    tt: TT,
    hint: Option<&'a TVal>,
    ops: &'a mut Ops,
) -> Pin<Box<dyn Future<Output = Result<TVal, ReadErr>> + 'a>> {
    Box::pin(async move {
        Ok(match tt {
            TT::Bool => {
                ops.hit(Op::read_bool);
                TVal::Bool(p.read_bool().await?)
            }
            TT::I8 => {
                ops.hit(Op::read_i8);
                TVal::I8(p.read_i8().await?)
            }
            TT::I16 => {
                ops.hit(Op::read_i16);
                TVal::I16(p.read_i16().await?)
            }
            TT::I32 => {
                ops.hit(Op::read_i32);
                TVal::I32(p.read_i32().await?)
            }
            TT::I64 => {
                ops.hit(Op::read_i64);
                TVal::I64(p.read_i64().await?)
            }
            TT::Double => {
                ops.hit(Op::read_double);
                TVal::Double(p.read_double().await?.to_bits())
            }
            TT::Uuid => {
                ops.hit(Op::read_uuid);
                TVal::Uuid(p.read_uuid().await?)
            }
            TT::Binary => {
                let utf8 = match hint {
                    Some(TVal::Binary(b)) => std::str::from_utf8(b).is_ok(),
                    _ => false,
                };
                let k = ops.pick(if utf8 { 4 } else { 2 });
                match k {
                    0 => {
                        ops.hit(Op::read_bytes);
                        TVal::Binary(p.read_bytes().await?.to_vec())
                    }
                    1 => {
                        ops.hit(Op::read_bytes_vec);
                        TVal::Binary(p.read_bytes_vec().await?)
                    }
                    2 => {
                        ops.hit(Op::read_string);
                        TVal::Binary(p.read_string().await?.into_bytes())
                    }
                    _ => {
                        ops.hit(Op::read_faststr);
                        TVal::Binary(p.read_faststr().await?.as_bytes().to_vec())
                    }
                }
            }
            TT::Struct => {
                ops.hit(Op::read_struct_begin);
                p.read_struct_begin().await?;
                let hint_fields = match hint {
                    Some(TVal::Struct(fs)) => Some(fs),
                    _ => None,
                };
                let mut fs = Vec::new();
                loop {
                    ops.hit(Op::read_field_begin);
                    let fi = p.read_field_begin().await?;
                    if fi.field_type == TType::Stop {
                        break;
                    }
                    let ft = from_ttype(fi.field_type)
                        .ok_or_else(|| ReadErr::BadType(format!("{:?}", fi.field_type)))?;
                    let id = fi.id.unwrap_or(0);
                    let h = hint_fields.and_then(|h| h.get(fs.len()).map(|x| &x.1));
                    let v = read_val_async(p, ft, h, ops).await?;
                    ops.hit(Op::read_field_end);
                    p.read_field_end().await?;
                    fs.push((id, v));
                }
                ops.hit(Op::read_struct_end);
                p.read_struct_end().await?;
                TVal::Struct(fs)
            }
            TT::List | TT::Set => {
                let (et, n) = if tt == TT::List {
                    ops.hit(Op::read_list_begin);
                    let li = p.read_list_begin().await?;
                    (li.element_type, li.size)
                } else {
                    ops.hit(Op::read_set_begin);
                    let si = p.read_set_begin().await?;
                    (si.element_type, si.size)
                };
                let hint_elems = match hint {
                    Some(TVal::List(_, xs)) | Some(TVal::Set(_, xs)) => Some(xs),
                    _ => None,
                };
                let mut xs = Vec::new();
                let et2 = if n > 0 {
                    if n > MAX_ELEMS {
                        return Err(ReadErr::TooBig(n));
                    }
                    let et =
                        from_ttype(et).ok_or_else(|| ReadErr::BadType(format!("{:?}", et)))?;
                    for i in 0..n {
                        let h = hint_elems.and_then(|h| h.get(i));
                        xs.push(read_val_async(p, et, h, ops).await?);
                    }
                    et
                } else {
                    from_ttype(et).unwrap_or(TT::Bool)
                };
                if tt == TT::List {
                    ops.hit(Op::read_list_end);
                    p.read_list_end().await?;
                    TVal::List(et2, xs)
                } else {
                    ops.hit(Op::read_set_end);
                    p.read_set_end().await?;
                    TVal::Set(et2, xs)
                }
            }
            TT::Map => {
                ops.hit(Op::read_map_begin);
                let mi = p.read_map_begin().await?;
                let hint_entries = match hint {
                    Some(TVal::Map(_, _, es)) => Some(es),
                    _ => None,
                };
                let mut es = Vec::new();
                if mi.size == 0 {
                    ops.hit(Op::read_map_end);
                    p.read_map_end().await?;
                    let kt = from_ttype(mi.key_type).unwrap_or(TT::Bool);
                    let vt = from_ttype(mi.value_type).unwrap_or(TT::Bool);
                    return Ok(TVal::Map(kt, vt, es));
                }
                if mi.size > MAX_ELEMS {
                    return Err(ReadErr::TooBig(mi.size));
                }
                let kt = from_ttype(mi.key_type)
                    .ok_or_else(|| ReadErr::BadType(format!("{:?}", mi.key_type)))?;
                let vt = from_ttype(mi.value_type)
                    .ok_or_else(|| ReadErr::BadType(format!("{:?}", mi.value_type)))?;
                for i in 0..mi.size {
                    let h = hint_entries.and_then(|h| h.get(i));
                    let k = read_val_async(p, kt, h.map(|x| &x.0), ops).await?;
                    let v = read_val_async(p, vt, h.map(|x| &x.1), ops).await?;
                    es.push((k, v));
                }
                ops.hit(Op::read_map_end);
                p.read_map_end().await?;
                TVal::Map(kt, vt, es)
            }
        })
    })
}
