//! Drivers for pilota's wire protocols shared by the runtime checks and the
//! generated-code checks: value interpreter, codec/buffer matrix, tree diff.
pub mod codecs;
pub mod interp;
pub mod oracle;
