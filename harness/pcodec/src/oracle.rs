//! Tree comparison with a classification of the first difference, used to
//! build narrow violation keys.

use refmodel::tval::TVal;

#[derive(Debug, Clone)]
pub struct Diff {
    pub path: String,
    pub class: String,
    pub expected: String,
    pub got: String,
}

pub fn diff(exp: &TVal, got: &TVal) -> Option<Diff> {
    diff_at(exp, got, String::new(), false)
}

fn mk(path: &str, class: &str, e: &TVal, g: &TVal) -> Option<Diff> {
    Some(Diff {
        path: path.to_string(),
        class: class.to_string(),
        expected: e.render(160),
        got: g.render(160),
    })
}

fn diff_at(e: &TVal, g: &TVal, path: String, after_nested: bool) -> Option<Diff> {
    let _ = after_nested;
    if e.tt() != g.tt() {
        return mk(&path, &format!("type:{}->{}", e.tt().name(), g.tt().name()), e, g);
    }
    match (e, g) {
        (TVal::Double(a), TVal::Double(b)) => {
            if a != b {
                let class = if a.swap_bytes() == *b { "double:byteswapped" } else { "double:value" };
                return mk(&path, class, e, g);
            }
            None
        }
        (TVal::Struct(a), TVal::Struct(b)) => {
            let mut prev_nested = false;
            for (i, ((ia, va), (ib, vb))) in a.iter().zip(b.iter()).enumerate() {
                if ia != ib {
                    let class = if prev_nested {
                        "field-id:after-nested-struct"
                    } else {
                        "field-id"
                    };
                    return mk(&format!("{}/#{}(id {} vs {})", path, i, ia, ib), class, e, g);
                }
                if let Some(d) = diff_at(va, vb, format!("{}/{}", path, ia), false) {
                    return Some(d);
                }
                prev_nested = matches!(va, TVal::Struct(_));
            }
            if a.len() != b.len() {
                return mk(&path, "struct:field-count", e, g);
            }
            None
        }
        (TVal::List(ta, a), TVal::List(tb, b)) | (TVal::Set(ta, a), TVal::Set(tb, b)) => {
            if ta != tb {
                return mk(&path, "container:elem-type", e, g);
            }
            if a.len() != b.len() {
                return mk(&path, "container:size", e, g);
            }
            for (i, (x, y)) in a.iter().zip(b.iter()).enumerate() {
                if let Some(d) = diff_at(x, y, format!("{}[{}]", path, i), false) {
                    return Some(d);
                }
            }
            None
        }
        (TVal::Map(ka, va, a), TVal::Map(kb, vb, b)) => {
            if a.len() != b.len() {
                return mk(&path, "map:size", e, g);
            }
            if !a.is_empty() && (ka != kb || va != vb) {
                return mk(&path, "map:types", e, g);
            }
            for (i, ((k1, v1), (k2, v2))) in a.iter().zip(b.iter()).enumerate() {
                if let Some(d) = diff_at(k1, k2, format!("{}<k{}>", path, i), false) {
                    return Some(d);
                }
                if let Some(d) = diff_at(v1, v2, format!("{}<v{}>", path, i), false) {
                    return Some(d);
                }
            }
            None
        }
        _ => {
            if e != g {
                mk(&path, &format!("value:{}", e.tt().name()), e, g)
            } else {
                None
            }
        }
    }
}
