//! Generator of Thrift documents as descriptor values (`pilota_thrift_parser::File`)
//! and a printer with random layout (whitespace, three comment styles, list
//! separators, quote styles, `a . b` paths).

use std::sync::Arc;

use pilota_thrift_parser::{
    Annotation, Annotations, Attribute, ConstValue, Constant, CppInclude, CppType, DoubleConstant,
    Enum, EnumValue, Exception, Field, File, Function, Ident, Include, IntConstant, Item, Literal,
    Namespace, Path, Scope, Service, Struct, StructLike, Ty, Type, Typedef, Union,
};
use refmodel::rng::Rng;

/// identifiers that merely *begin* with a keyword or a literal, next to plain ones
const TRICKY: [&str; 30] = [
    "trueValue", "falsey", "true_", "false1", "optionalFoo", "requiredX", "required_", "optional1",
    "stringy", "listing", "mapper", "setting", "onewayTrip", "throwsUp", "i32x", "i64_", "i8a",
    "i16b", "includes", "constant", "boolean", "doubled", "voidable", "bytes", "binaryTree",
    "uuids", "structure", "unions", "enumerate", "services",
];
const PLAIN: [&str; 12] = ["a", "Foo", "bar_baz", "X1", "_priv", "_1", "T", "req", "opt", "name", "value", "id"];

pub struct DocGen<'a> {
    pub rng: &'a mut Rng,
    pub used: std::collections::BTreeMap<&'static str, u64>,
}

impl<'a> DocGen<'a> {
    pub fn new(rng: &'a mut Rng) -> Self {
        DocGen { rng, used: Default::default() }
    }
    fn hit(&mut self, k: &'static str) {
        *self.used.entry(k).or_insert(0) += 1;
    }

    pub fn ident(&mut self, pos: &'static str) -> Ident {
        let s = if self.rng.chance(1, 2) {
            match pos {
                "type" => self.hit("tricky_ident.type_position"),
                "const" => self.hit("tricky_ident.constant_position"),
                "attr" => self.hit("tricky_ident.attribute_position"),
                _ => self.hit("tricky_ident.name_position"),
            }
            (*self.rng.pick(&TRICKY)).to_string()
        } else {
            (*self.rng.pick(&PLAIN)).to_string()
        };
        let s = if self.rng.chance(1, 4) { format!("{}{}", s, self.rng.below(100)) } else { s };
        Ident(Arc::from(s.as_str()))
    }

    pub fn path(&mut self, pos: &'static str) -> Path {
        let n = if self.rng.chance(2, 3) { 1 } else { 2 + self.rng.usize_below(2) };
        let segs: Vec<Ident> = (0..n).map(|_| self.ident(pos)).collect();
        Path { segments: Arc::from(segs) }
    }

    pub fn literal(&mut self) -> Literal {
        // contents: valid escaped text that contains neither kind of raw quote
        // (the printer chooses the delimiter), backslash escapes from the set the
        // parser documents: \' \" \n \\
        let n = self.rng.usize_below(6);
        let mut s = String::new();
        for _ in 0..n {
            match self.rng.below(9) {
                0 => s.push_str("\\n"),
                1 => s.push_str("\\\\"),
                2 => s.push_str("\\\""),
                3 => s.push_str("\\'"),
                4 => s.push(' '),
                5 => s.push_str("é中"),
                6 => s.push_str("//x"),
                7 => s.push_str("/*y*/"),
                _ => s.push_str("ab:1"),
            }
        }
        Literal(s)
    }

    pub fn annotations(&mut self, p: u64) -> Annotations {
        if !self.rng.chance(1, p) {
            return Annotations(vec![]);
        }
        self.hit("annotations");
        let n = 1 + self.rng.usize_below(3);
        Annotations(
            (0..n)
                .map(|_| Annotation {
                    key: (*self.rng.pick(&["pilota.name", "go.tag", "a", "x_y", "cpp.type", "_z.w"])).to_string(),
                    value: self.literal(),
                })
                .collect(),
        )
    }

    pub fn ty(&mut self, depth: usize, allow_void: bool) -> Type {
        let r = self.rng.below(if depth >= 3 { 12 } else { 16 });
        let cpp = |g: &mut DocGen| -> Option<CppType> {
            if g.rng.chance(1, 8) {
                g.hit("cpp_type");
                Some(CppType(g.literal()))
            } else {
                None
            }
        };
        let t = match r {
            0 => Ty::String,
            1 => Ty::Byte,
            2 => Ty::Bool,
            3 => Ty::Binary,
            4 => Ty::I8,
            5 => Ty::I16,
            6 => Ty::I32,
            7 => Ty::I64,
            8 => Ty::Double,
            9 => Ty::Uuid,
            10 | 11 => {
                self.hit("ty.path");
                Ty::Path(self.path("type"))
            }
            12 | 13 => {
                self.hit("ty.list");
                Ty::List { value: Arc::new(self.ty(depth + 1, false)), cpp_type: cpp(self) }
            }
            14 => {
                self.hit("ty.set");
                Ty::Set { value: Arc::new(self.ty(depth + 1, false)), cpp_type: cpp(self) }
            }
            _ => {
                self.hit("ty.map");
                Ty::Map { key: Arc::new(self.ty(depth + 1, false)), value: Arc::new(self.ty(depth + 1, false)), cpp_type: cpp(self) }
            }
        };
        let t = if allow_void && self.rng.chance(1, 5) { Ty::Void } else { t };
        Type(t, self.annotations(10))
    }

    pub fn const_value(&mut self, depth: usize) -> ConstValue {
        match self.rng.below(if depth >= 3 { 7 } else { 10 }) {
            0 => {
                self.hit("const.bool");
                ConstValue::Bool(self.rng.chance(1, 2))
            }
            1 | 2 => {
                self.hit("const.path");
                ConstValue::Path(self.path("const"))
            }
            3 => {
                self.hit("const.string");
                ConstValue::String(self.literal())
            }
            4 | 5 => {
                self.hit("const.int");
                ConstValue::Int(IntConstant(match self.rng.below(5) {
                    0 => 0,
                    1 => -(self.rng.below(1000) as i64),
                    2 => i64::MAX,
                    3 => -i64::MAX,
                    _ => self.rng.below(100000) as i64,
                }))
            }
            6 => {
                self.hit("const.double");
                let s = match self.rng.below(7) {
                    0 => "1.5".to_string(),
                    1 => "-0.25".to_string(),
                    2 => "1.".to_string(),
                    3 => ".5".to_string(),
                    4 => "1e10".to_string(),
                    5 => "2.5E-3".to_string(),
                    _ => format!("{}.{}", self.rng.below(100), self.rng.below(100)),
                };
                ConstValue::Double(DoubleConstant(Arc::from(s.as_str())))
            }
            7 | 8 => {
                self.hit("const.list");
                let n = self.rng.usize_below(4);
                ConstValue::List((0..n).map(|_| self.const_value(depth + 1)).collect())
            }
            _ => {
                self.hit("const.map");
                let n = self.rng.usize_below(3);
                ConstValue::Map((0..n).map(|_| (self.const_value(depth + 1), self.const_value(depth + 1))).collect())
            }
        }
    }

    pub fn field(&mut self, id: i32, in_function: bool) -> Field {
        let attribute = match self.rng.below(3) {
            0 => Attribute::Required,
            1 => Attribute::Optional,
            // the parser's normal form for function arguments never has Default
            _ => {
                if in_function { Attribute::Required } else { Attribute::Default }
            }
        };
        Field {
            id,
            name: self.ident("name"),
            attribute,
            ty: self.ty(0, false),
            default: if self.rng.chance(1, 3) {
                self.hit("field.default");
                Some(self.const_value(0))
            } else {
                None
            },
            annotations: self.annotations(6),
        }
    }

    fn fields(&mut self, max: usize, in_function: bool) -> Vec<Field> {
        let n = self.rng.usize_below(max + 1);
        let mut id = 0;
        (0..n)
            .map(|_| {
                id += 1 + self.rng.below(3) as i32;
                self.field(id, in_function)
            })
            .collect()
    }

    fn struct_like(&mut self) -> StructLike {
        StructLike { name: self.ident("name"), fields: self.fields(5, false), annotations: self.annotations(6) }
    }

    pub fn item(&mut self) -> Item {
        match self.rng.below(12) {
            0 => {
                self.hit("item.include");
                Item::Include(Include { path: self.literal() })
            }
            1 => {
                self.hit("item.cpp_include");
                Item::CppInclude(CppInclude(self.literal()))
            }
            2 => {
                self.hit("item.namespace");
                let scope = *self.rng.pick(&["*", "c_glib", "cpp", "delphi", "haxe", "go", "java", "js", "lua", "netstd", "perl", "php", "py.twisted", "py", "rb", "st", "xsd", "rs"]);
                let ann = self.annotations(5);
                Item::Namespace(Namespace { scope: Scope(scope.to_string()), name: self.path("name"), annotations: if ann.0.is_empty() { None } else { Some(ann) } })
            }
            3 => {
                self.hit("item.typedef");
                Item::Typedef(Typedef { r#type: self.ty(0, false), alias: self.ident("name"), annotations: self.annotations(6) })
            }
            4 | 5 => {
                self.hit("item.const");
                Item::Constant(Constant { name: self.ident("name"), r#type: self.ty(0, false), value: self.const_value(0), annotations: self.annotations(6) })
            }
            6 => {
                self.hit("item.enum");
                let n = self.rng.usize_below(5);
                let values = (0..n)
                    .map(|_| EnumValue {
                        name: self.ident("name"),
                        value: if self.rng.chance(1, 2) { Some(IntConstant(self.rng.range(-5, 500))) } else { None },
                        annotations: self.annotations(6),
                    })
                    .collect();
                Item::Enum(Enum { name: self.ident("name"), values, annotations: self.annotations(6) })
            }
            7 | 8 => {
                self.hit("item.struct");
                Item::Struct(Struct(self.struct_like()))
            }
            9 => {
                self.hit("item.union");
                Item::Union(Union(self.struct_like()))
            }
            10 => {
                self.hit("item.exception");
                Item::Exception(Exception(self.struct_like()))
            }
            _ => {
                self.hit("item.service");
                let n = self.rng.usize_below(4);
                let functions = (0..n)
                    .map(|_| {
                        let oneway = self.rng.chance(1, 4);
                        if oneway {
                            self.hit("function.oneway");
                        }
                        let throws = if self.rng.chance(1, 3) {
                            self.hit("function.throws");
                            let mut t = self.fields(2, false);
                            if t.is_empty() {
                                t.push(self.field(1, false));
                            }
                            t
                        } else {
                            vec![]
                        };
                        Function { name: self.ident("name"), oneway, result_type: self.ty(0, true), arguments: self.fields(3, true), throws, annotations: self.annotations(6) }
                    })
                    .collect();
                let extends = if self.rng.chance(1, 3) {
                    self.hit("service.extends");
                    Some(self.path("type"))
                } else {
                    None
                };
                Item::Service(Service { name: self.ident("name"), extends, functions, annotations: self.annotations(6) })
            }
        }
    }

    pub fn file(&mut self) -> File {
        let n = 1 + self.rng.usize_below(6);
        let items: Vec<Item> = (0..n).map(|_| self.item()).collect();
        let package = items.iter().find_map(|i| match i {
            Item::Namespace(ns) if ns.scope.0 == "rs" => Some(ns.name.clone()),
            _ => None,
        });
        File { path: Default::default(), package, items }
    }
}

// ---------------------------------------------------------------------------
// printer

pub struct Layout<'a> {
    pub rng: &'a mut Rng,
    /// 0 = canonical (single spaces, commas), 1 = random
    pub wild: bool,
    pub used: std::collections::BTreeMap<&'static str, u64>,
}

impl<'a> Layout<'a> {
    fn hit(&mut self, k: &'static str) {
        *self.used.entry(k).or_insert(0) += 1;
    }
    /// required blank: at least one whitespace/comment
    fn b1(&mut self, out: &mut String) {
        if !self.wild {
            out.push(' ');
            return;
        }
        let n = 1 + self.rng.usize_below(3);
        for _ in 0..n {
            match self.rng.below(9) {
                0 => {
                    self.hit("comment.slashslash");
                    out.push_str("// c\u{e9} ; , \" ' { } [ ]\n");
                }
                1 => {
                    self.hit("comment.hash");
                    out.push_str("# hash ( ) = : <>\n");
                }
                2 => {
                    self.hit("comment.block");
                    // several spellings of a block comment: with text, empty, doc style, with
                    // stars and slashes inside, immediately closed after a star
                    out.push_str(*self.rng.pick(&["/* block\n * 1: required i32 x, */", "/**/", "/***/", "/** doc */", "/* a * b / c **/", "/*/ */", "/* // # */"]));
                }
                3 => out.push('\n'),
                4 => out.push('\t'),
                5 => out.push_str("\r\n"),
                _ => out.push(' '),
            }
        }
    }
    /// optional blank
    fn b0(&mut self, out: &mut String) {
        if self.wild && self.rng.chance(1, 2) {
            self.b1(out)
        } else if !self.wild {
        }
    }
    /// list separator: comma, semicolon or none (none => a blank so tokens do not merge)
    fn sep(&mut self, out: &mut String) {
        if !self.wild {
            out.push(',');
            return;
        }
        match self.rng.below(3) {
            0 => {
                self.hit("separator.comma");
                out.push(',');
                self.b0(out)
            }
            1 => {
                self.hit("separator.semicolon");
                out.push(';');
                self.b0(out)
            }
            _ => {
                self.hit("separator.none");
                self.b1(out)
            }
        }
    }

    fn literal(&mut self, l: &Literal, out: &mut String) {
        // the contents contain only escaped quotes, so either delimiter works
        let q = if self.wild && self.rng.chance(1, 2) {
            self.hit("quote.single");
            '\''
        } else {
            self.hit("quote.double");
            '"'
        };
        out.push(q);
        out.push_str(&l.0);
        out.push(q);
    }

    fn path(&mut self, p: &Path, out: &mut String) {
        for (i, s) in p.segments.iter().enumerate() {
            if i > 0 {
                if self.wild && self.rng.chance(1, 4) {
                    self.hit("path.spaced_dot");
                    self.b1(out);
                    out.push('.');
                    self.b1(out);
                } else {
                    out.push('.');
                }
            }
            out.push_str(&s.0);
        }
    }

    fn annotations(&mut self, a: &Annotations, out: &mut String) {
        if a.0.is_empty() {
            return;
        }
        out.push('(');
        for an in &a.0 {
            self.b0(out);
            out.push_str(&an.key);
            self.b0(out);
            out.push('=');
            self.b0(out);
            self.literal(&an.value, out);
            self.b0(out);
            self.sep(out);
        }
        out.push(')');
    }

    fn cpp(&mut self, c: &Option<CppType>, out: &mut String) {
        if let Some(c) = c {
            self.b1(out);
            out.push_str("cpp_type");
            self.b1(out);
            self.literal(&c.0, out);
        }
    }

    fn ty(&mut self, t: &Type, out: &mut String) {
        match &t.0 {
            Ty::String => out.push_str("string"),
            Ty::Void => out.push_str("void"),
            Ty::Byte => out.push_str("byte"),
            Ty::Bool => out.push_str("bool"),
            Ty::Binary => out.push_str("binary"),
            Ty::I8 => out.push_str("i8"),
            Ty::I16 => out.push_str("i16"),
            Ty::I32 => out.push_str("i32"),
            Ty::I64 => out.push_str("i64"),
            Ty::Double => out.push_str("double"),
            Ty::Uuid => out.push_str("uuid"),
            Ty::List { value, cpp_type } => {
                out.push_str("list");
                self.b0(out);
                out.push('<');
                self.b0(out);
                self.ty(value, out);
                self.b0(out);
                out.push('>');
                self.cpp(cpp_type, out);
            }
            Ty::Set { value, cpp_type } => {
                out.push_str("set");
                self.cpp(cpp_type, out);
                self.b0(out);
                out.push('<');
                self.b0(out);
                self.ty(value, out);
                self.b0(out);
                out.push('>');
            }
            Ty::Map { key, value, cpp_type } => {
                out.push_str("map");
                self.cpp(cpp_type, out);
                self.b0(out);
                out.push('<');
                self.b0(out);
                self.ty(key, out);
                self.b0(out);
                // the key/value separator of a map type is mandatory
                out.push(if self.wild && self.rng.chance(1, 3) { ';' } else { ',' });
                self.b0(out);
                self.ty(value, out);
                self.b0(out);
                out.push('>');
            }
            Ty::Path(p) => self.path(p, out),
        }
        if !t.1.0.is_empty() {
            self.b0(out);
            self.annotations(&t.1, out);
        }
    }

    fn const_value(&mut self, v: &ConstValue, out: &mut String) {
        match v {
            ConstValue::Bool(b) => out.push_str(if *b { "true" } else { "false" }),
            ConstValue::Path(p) => self.path(p, out),
            ConstValue::String(l) => self.literal(l, out),
            ConstValue::Int(i) => {
                if self.wild && i.0 >= 0 && self.rng.chance(1, 4) {
                    self.hit("int.hex");
                    if self.rng.chance(1, 2) {
                        out.push_str(&format!("0x{:x}", i.0))
                    } else {
                        out.push_str(&format!("0x{:X}", i.0))
                    }
                } else if self.wild && i.0 < 0 && i.0 != i64::MIN && self.rng.chance(1, 3) {
                    self.hit("int.neg_hex");
                    out.push_str(&format!("-0x{:x}", -i.0))
                } else {
                    out.push_str(&format!("{}", i.0))
                }
            }
            ConstValue::Double(d) => out.push_str(&d.0),
            ConstValue::List(xs) => {
                out.push('[');
                for x in xs {
                    self.b0(out);
                    self.const_value(x, out);
                    self.b0(out);
                    self.sep(out);
                }
                self.b0(out);
                out.push(']');
            }
            ConstValue::Map(es) => {
                out.push('{');
                for (k, val) in es {
                    self.b0(out);
                    self.const_value(k, out);
                    self.b0(out);
                    out.push(':');
                    self.b0(out);
                    self.const_value(val, out);
                    self.b0(out);
                    self.sep(out);
                }
                self.b0(out);
                out.push('}');
            }
        }
    }

    fn field(&mut self, f: &Field, in_function: bool, out: &mut String) {
        out.push_str(&format!("{}", f.id));
        self.b0(out);
        out.push(':');
        self.b0(out);
        match f.attribute {
            Attribute::Required => {
                // for a function argument "required" may be written or left out
                // (the parser's normal form is Required either way)
                if !in_function || !self.wild || self.rng.chance(1, 2) {
                    out.push_str("required");
                    self.b1(out);
                }
            }
            Attribute::Optional => {
                out.push_str("optional");
                self.b1(out);
            }
            Attribute::Default => {}
        }
        self.ty(&f.ty, out);
        self.b1(out);
        out.push_str(&f.name.0);
        if let Some(d) = &f.default {
            self.b0(out);
            out.push('=');
            self.b0(out);
            self.const_value(d, out);
        }
        if !f.annotations.0.is_empty() {
            self.b0(out);
            self.annotations(&f.annotations, out);
        }
        self.b0(out);
        self.sep(out);
    }

    fn struct_like(&mut self, kw: &str, s: &StructLike, out: &mut String) {
        out.push_str(kw);
        self.b1(out);
        out.push_str(&s.name.0);
        self.b0(out);
        out.push('{');
        for f in &s.fields {
            self.b0(out);
            self.field(f, false, out);
        }
        self.b0(out);
        out.push('}');
        if !s.annotations.0.is_empty() {
            self.b0(out);
            self.annotations(&s.annotations, out);
        }
        if self.wild && self.rng.chance(1, 3) {
            out.push(if self.rng.chance(1, 2) { ',' } else { ';' });
        }
    }

    fn item(&mut self, it: &Item, out: &mut String) {
        match it {
            Item::Include(i) => {
                out.push_str("include");
                self.b1(out);
                self.literal(&i.path, out);
                if self.wild && self.rng.chance(1, 3) {
                    out.push(';');
                }
            }
            Item::CppInclude(i) => {
                out.push_str("cpp_include");
                self.b1(out);
                self.literal(&i.0, out);
                if self.wild && self.rng.chance(1, 3) {
                    out.push(',');
                }
            }
            Item::Namespace(n) => {
                out.push_str("namespace");
                self.b1(out);
                out.push_str(&n.scope.0);
                self.b1(out);
                self.path(&n.name, out);
                if let Some(a) = &n.annotations {
                    self.b0(out);
                    self.annotations(a, out);
                }
                if self.wild && self.rng.chance(1, 3) {
                    self.b0(out);
                    out.push(';');
                }
            }
            Item::Typedef(t) => {
                out.push_str("typedef");
                self.b1(out);
                self.ty(&t.r#type, out);
                self.b1(out);
                out.push_str(&t.alias.0);
                if !t.annotations.0.is_empty() {
                    self.b0(out);
                    self.annotations(&t.annotations, out);
                }
                if self.wild && self.rng.chance(1, 3) {
                    self.b0(out);
                    out.push(';');
                }
            }
            Item::Constant(c) => {
                out.push_str("const");
                self.b1(out);
                self.ty(&c.r#type, out);
                self.b1(out);
                out.push_str(&c.name.0);
                self.b0(out);
                out.push('=');
                self.b0(out);
                self.const_value(&c.value, out);
                if !c.annotations.0.is_empty() {
                    self.b0(out);
                    self.annotations(&c.annotations, out);
                }
                if self.wild && self.rng.chance(1, 3) {
                    out.push(';');
                }
            }
            Item::Enum(e) => {
                out.push_str("enum");
                self.b1(out);
                out.push_str(&e.name.0);
                self.b0(out);
                out.push('{');
                self.b0(out);
                for v in &e.values {
                    out.push_str(&v.name.0);
                    if let Some(i) = &v.value {
                        self.b0(out);
                        out.push('=');
                        self.b0(out);
                        out.push_str(&format!("{}", i.0));
                    }
                    if !v.annotations.0.is_empty() {
                        self.b0(out);
                        self.annotations(&v.annotations, out);
                    }
                    self.sep(out);
                    self.b0(out);
                }
                out.push('}');
                if !e.annotations.0.is_empty() {
                    self.b0(out);
                    self.annotations(&e.annotations, out);
                }
            }
            Item::Struct(s) => self.struct_like("struct", &s.0, out),
            Item::Union(s) => self.struct_like("union", &s.0, out),
            Item::Exception(s) => self.struct_like("exception", &s.0, out),
            Item::Service(s) => {
                out.push_str("service");
                self.b1(out);
                out.push_str(&s.name.0);
                if let Some(e) = &s.extends {
                    self.b1(out);
                    out.push_str("extends");
                    self.b1(out);
                    self.path(e, out);
                }
                self.b0(out);
                out.push('{');
                for f in &s.functions {
                    self.b0(out);
                    if f.oneway {
                        out.push_str("oneway");
                        self.b1(out);
                    }
                    self.ty(&f.result_type, out);
                    self.b1(out);
                    out.push_str(&f.name.0);
                    self.b0(out);
                    out.push('(');
                    for a in &f.arguments {
                        self.b0(out);
                        self.field(a, true, out);
                    }
                    self.b0(out);
                    out.push(')');
                    if !f.throws.is_empty() {
                        self.b0(out);
                        out.push_str("throws");
                        self.b0(out);
                        out.push('(');
                        for a in &f.throws {
                            self.b0(out);
                            self.field(a, false, out);
                        }
                        self.b0(out);
                        out.push(')');
                    }
                    if !f.annotations.0.is_empty() {
                        self.b0(out);
                        self.annotations(&f.annotations, out);
                    }
                    self.b0(out);
                    self.sep(out);
                }
                self.b0(out);
                out.push('}');
                if !s.annotations.0.is_empty() {
                    self.b0(out);
                    self.annotations(&s.annotations, out);
                }
            }
        }
    }

    pub fn item_text(&mut self, it: &Item) -> String {
        let mut out = String::new();
        self.item(it, &mut out);
        out
    }

    pub fn file(&mut self, f: &File) -> String {
        let mut out = String::new();
        self.b0(&mut out);
        for it in &f.items {
            self.item(it, &mut out);
            self.b1(&mut out);
        }
        out
    }
}
