//! C15 (parser inverts printing) and C16 (parser is total).

mod docgen;

use docgen::{DocGen, Layout};
use monitors::driver::{Check, sub_mark, sub_mark_n};
use monitors::evidence::{Ctx, Frag, Report};
use monitors::run::{Death, STACK_2MIB, catch, death_json, on_stack};
use pilota_thrift_parser::parser::Parser;
use pilota_thrift_parser::{ConstValue, File, Item, Ty};
use refmodel::rng::{Rng, fnv1a};
use serde_json::{Value, json};

fn dbg_of(f: &File) -> String {
    format!("{:?}", (&f.items, &f.package))
}

fn item_kind(i: &Item) -> &'static str {
    match i {
        Item::Include(_) => "include",
        Item::CppInclude(_) => "cpp_include",
        Item::Namespace(_) => "namespace",
        Item::Typedef(_) => "typedef",
        Item::Constant(_) => "const",
        Item::Enum(_) => "enum",
        Item::Struct(_) => "struct",
        Item::Union(_) => "union",
        Item::Exception(_) => "exception",
        Item::Service(_) => "service",
    }
}

#[derive(Debug)]
enum Outcome {
    Same,
    ParseError(String),
    Leftover(usize),
    Differs,
    Panic(String),
}

fn roundtrip(doc: &File, text: &str) -> Outcome {
    let want = dbg_of(doc);
    let text2 = text.to_string();
    match catch(move || File::parse(&text2).map(|(rest, f)| (rest.len(), dbg_of(&f))).map_err(|e| format!("{:?}", e).chars().take(160).collect::<String>())) {
        Err(p) => Outcome::Panic(format!("{} {}", p.location, p.message)),
        Ok(Err(e)) => Outcome::ParseError(e),
        Ok(Ok((rest, got))) => {
            if rest != 0 {
                Outcome::Leftover(rest)
            } else if got != want {
                Outcome::Differs
            } else {
                Outcome::Same
            }
        }
    }
}

/// classification of documents by the keyword-prefix hazards they contain
fn hazards(doc: &File) -> Vec<&'static str> {
    let mut v = vec![];
    fn cv(c: &ConstValue, v: &mut Vec<&'static str>) {
        match c {
            ConstValue::Path(p) => {
                let s = &p.segments[0].0;
                if s.starts_with("true") || s.starts_with("false") {
                    v.push("constant-path-beginning-with-true/false");
                }
            }
            ConstValue::List(xs) => xs.iter().for_each(|x| cv(x, v)),
            ConstValue::Map(es) => es.iter().for_each(|(a, b)| {
                cv(a, v);
                cv(b, v)
            }),
            _ => {}
        }
    }
    fn ty(t: &Ty, attr_default: bool, v: &mut Vec<&'static str>) {
        match t {
            Ty::Path(p) => {
                let s = &p.segments[0].0;
                if attr_default && (s.starts_with("required") || s.starts_with("optional")) {
                    v.push("field-type-beginning-with-required/optional");
                }
            }
            Ty::List { value, .. } | Ty::Set { value, .. } => ty(&value.0, false, v),
            Ty::Map { key, value, .. } => {
                ty(&key.0, false, v);
                ty(&value.0, false, v)
            }
            _ => {}
        }
    }
    fn fields(fs: &[pilota_thrift_parser::Field], in_fn: bool, v: &mut Vec<&'static str>) {
        for f in fs {
            // the attribute keyword may be absent: Default, or an unprinted Required of a function argument
            let may_be_bare = f.attribute == pilota_thrift_parser::Attribute::Default || in_fn;
            ty(&f.ty.0, may_be_bare, v);
            if let Some(d) = &f.default {
                cv(d, v);
            }
        }
    }
    for it in &doc.items {
        match it {
            Item::Constant(c) => cv(&c.value, &mut v),
            Item::Struct(s) => fields(&s.0.fields, false, &mut v),
            Item::Union(s) => fields(&s.0.fields, false, &mut v),
            Item::Exception(s) => fields(&s.0.fields, false, &mut v),
            Item::Service(s) => {
                for f in &s.functions {
                    fields(&f.arguments, true, &mut v);
                    fields(&f.throws, false, &mut v);
                }
            }
            _ => {}
        }
    }
    v.sort();
    v.dedup();
    v
}

struct C15;

fn c15_doc(seed: u64, frag: &mut Frag, idx: u64) {
    let mut rng = Rng::new(seed);
    let doc = {
        let mut g = DocGen::new(&mut rng);
        let d = g.file();
        for (k, n) in &g.used {
            frag.add(&format!("gen.{}", k), *n);
        }
        d
    };
    frag.eval();
    let want = dbg_of(&doc);
    if doc.items.len() >= 2 {
        frag.distinct(fnv1a(want.as_bytes()));
    }
    let hz = hazards(&doc);
    let mut texts = vec![];
    for wild in [false, true, true] {
        let mut lrng = rng.fork(wild as u64 + texts.len() as u64);
        let mut l = Layout { rng: &mut lrng, wild, used: Default::default() };
        let t = l.file(&doc);
        for (k, n) in &l.used {
            frag.add(&format!("layout.{}", k), *n);
        }
        texts.push(t);
    }
    if frag.samples.len() < 2 && idx % 31 == 0 {
        frag.sample(json!({"idx": idx, "text_wild_layout": texts[1].chars().take(400).collect::<String>()}));
    }
    for (li, text) in texts.iter().enumerate() {
        sub_mark(&format!("c15 layout{} {}", li, text.chars().take(200).collect::<String>().replace('\n', "\\n")));
        frag.count(if li == 0 { "layout.canonical_docs" } else { "layout.wild_docs" });
        let out = roundtrip(&doc, text);
        if let Outcome::Same = out {
            continue;
        }
        // attribute: find a single item that fails on its own in canonical layout
        let mut culprit = "document".to_string();
        for k in 0..doc.items.len() {
            // print only item k by building the text of the whole doc item by item is not possible
            // without cloning (descriptor items are not Clone); use the kind of the first item whose
            // canonical text fails when parsed alone
            let mut lrng = Rng::new(1);
            let mut l = Layout { rng: &mut lrng, wild: false, used: Default::default() };
            let one = l.item_text(&doc.items[k]);
            let failed = !matches!(catch(|| matches!(File::parse(&one), Ok((rest, _)) if rest.is_empty())), Ok(true));
            if failed {
                culprit = item_kind(&doc.items[k]).to_string();
                break;
            }
        }
        let class = match &out {
            Outcome::ParseError(_) => "parse-error",
            Outcome::Leftover(_) => "input-left-unparsed",
            Outcome::Differs => "different-document",
            Outcome::Panic(_) => "panic",
            Outcome::Same => unreachable!(),
        };
        let hz_s = if hz.is_empty() { "no-keyword-prefix-hazard".to_string() } else { hz.join("+") };
        let layout_s = if li == 0 { "canonical-layout" } else { "free-layout" };
        // a failure of the canonical layout points at the content (keyword-prefix
        // hazards are part of the key there), a failure of a free layout only at the layout
        let key = if li == 0 { format!("c15|{}|{}|{}|{}", class, culprit, hz_s, layout_s) } else { format!("c15|{}|{}|{}", class, culprit, layout_s) };
        frag.violation(&key, &format!("[{} {} {}] printing then parsing does not give the document back: {:?}", class, culprit, layout_s, out), json!({"idx": idx, "seed": seed, "layout": li, "text": text, "expected_debug": want.chars().take(600).collect::<String>()}));
    }
}

impl Check for C15 {
    fn id(&self) -> &'static str {
        "c15"
    }
    fn rule(&self) -> String {
        "case = a Thrift document built directly from the parser's public descriptor types (includes, cpp_includes, namespaces of every scope, typedefs, consts with nested list/map literals, enums, structs/unions/exceptions with ids/requiredness/defaults/annotations, services with extends/oneway/throws; type annotations and cpp_type), in the parser's normal form, printed three times: canonical layout and two random layouts (whitespace runs, // # /* */ comments wherever blank is allowed, separators ',' ';' or none, single or double quotes, hex ints of either sign and digit case, 'a . b' paths); half of the identifiers begin with a keyword or literal (trueValue, falsey, optionalFoo, requiredX, stringy, listing, mapper, setting, onewayTrip, throwsUp, i32x ...). Oracle: File::parse leaves nothing unparsed and Debug(items, package) equals the Debug of the generated document for every layout. distinct = Debug hashes of documents with >= 2 items".into()
    }
    fn ncases(&self, ctx: &Ctx) -> u64 {
        ctx.scale(30_000, 3_000_000)
    }
    fn run_case(&self, ctx: &Ctx, idx: u64, frag: &mut Frag) {
        c15_doc(ctx.seed ^ 0xC15 ^ idx.wrapping_mul(0x9E37_79B9_7F4A_7C15), frag, idx);
    }
    fn replay(&self, _ctx: &Ctx, case: &Value, frag: &mut Frag) -> bool {
        match case["seed"].as_u64() {
            Some(s) => {
                c15_doc(s, frag, case["idx"].as_u64().unwrap_or(0));
                true
            }
            None => false,
        }
    }
    fn finish(&self, _ctx: &Ctx, r: &mut Report, deaths: &[Death]) {
        for d in deaths {
            r.frag.violation(&format!("c15|death|{}", d.class()), &format!("worker died ({}) parsing {}", d.class(), d.label), death_json(d));
        }
        r.assume("documents are in the parser's normal form: function arguments are Required or Optional (the parser rewrites Default), literal contents are valid escaped text without raw quote characters");
        for k in ["item.include", "item.cpp_include", "item.namespace", "item.typedef", "item.const", "item.enum", "item.struct", "item.union", "item.exception", "item.service", "ty.path", "ty.list", "ty.set", "ty.map", "const.bool", "const.path", "const.string", "const.int", "const.double", "const.list", "const.map", "function.oneway", "function.throws", "service.extends", "field.default", "annotations", "cpp_type", "tricky_ident.type_position", "tricky_ident.constant_position", "tricky_ident.name_position"] {
            r.floor(&format!("gen.{}", k), 20);
        }
        for k in ["comment.slashslash", "comment.hash", "comment.block", "separator.comma", "separator.semicolon", "separator.none", "quote.single", "quote.double", "path.spaced_dot", "int.hex", "int.neg_hex"] {
            r.floor(&format!("layout.{}", k), 20);
        }
    }
}

// ---------------------------------------------------------------------------
// C16

struct C16;

fn parse_guarded(text: &str) -> Result<bool, monitors::run::PanicRec> {
    let t = text.to_string();
    catch(move || File::parse(&t).is_ok())
}

fn tokens(text: &str) -> Vec<(usize, usize)> {
    // crude tokenizer: runs of alnum/_ , runs of digits are included, single punctuation chars
    let b = text.as_bytes();
    let mut v = vec![];
    let mut i = 0;
    while i < b.len() {
        let c = b[i];
        if c.is_ascii_alphanumeric() || c == b'_' {
            let s = i;
            while i < b.len() && (b[i].is_ascii_alphanumeric() || b[i] == b'_') {
                i += 1;
            }
            v.push((s, i));
        } else if c.is_ascii_whitespace() {
            i += 1;
        } else if c < 0x80 {
            v.push((i, i + 1));
            i += 1;
        } else {
            // skip a multi-byte char
            let mut j = i + 1;
            while j < b.len() && (b[j] & 0xC0) == 0x80 {
                j += 1;
            }
            v.push((i, j));
            i = j;
        }
    }
    v
}

fn mutants(text: &str, rng: &mut Rng, frag: &mut Frag) -> Vec<(String, &'static str)> {
    let toks = tokens(text);
    let mut out = vec![];
    if toks.is_empty() {
        return out;
    }
    let pick = |rng: &mut Rng| toks[rng.usize_below(toks.len())];
    const REPL: [&str; 16] = ["{", "}", "(", ")", "<", ">", "[", "]", "=", ":", ",", ";", "\"", "'", "/*", "-"];
    for _ in 0..6 {
        let (s, e) = pick(rng);
        out.push((format!("{}{}", &text[..s], &text[e..]), "delete"));
        let (s, e) = pick(rng);
        out.push((format!("{}{}{}", &text[..e], &text[s..e], &text[e..]), "duplicate"));
        let (s, e) = pick(rng);
        out.push((format!("{}{}{}", &text[..s], *rng.pick(&REPL), &text[e..]), "replace"));
        let (s1, e1) = pick(rng);
        let (s2, e2) = pick(rng);
        if e1 <= s2 {
            out.push((format!("{}{}{}{}{}", &text[..s1], &text[s2..e2], &text[e1..s2], &text[s1..e1], &text[e2..]), "swap"));
        }
    }
    // number inflation at EVERY numeric token
    for (s, e) in &toks {
        let t = &text[*s..*e];
        if t.bytes().all(|c| c.is_ascii_digit()) {
            for n in [11usize, 20, 40, 400] {
                let d: String = std::iter::repeat(t.chars().next().unwrap_or('9').max('1')).take(n).collect();
                out.push((format!("{}{}{}", &text[..*s], d, &text[*e..]), "number-inflate"));
                frag.count("numeric_positions_inflated");
            }
            // the boundaries of the integer types, with and without a sign in front
            for d in ["9223372036854775807", "9223372036854775808", "-9223372036854775808", "-9223372036854775809", "18446744073709551615", "18446744073709551616", "2147483648", "-2147483649", "32768", "-32769", "-0", "+1"] {
                out.push((format!("{}{}{}", &text[..*s], d, &text[*e..]), "number-boundary"));
                frag.count("numeric_positions_boundary");
            }
        }
    }
    // a multi-byte character glued to a word token (keyword, type name, identifier, literal
    // word), after it and before it: byte-index arithmetic at word boundaries. Every distinct
    // word of the document once, plus random positions.
    {
        let mut seen: std::collections::BTreeSet<&str> = Default::default();
        for (s, e) in &toks {
            let t = &text[*s..*e];
            if t.bytes().all(|c| c.is_ascii_alphanumeric() || c == b'_') && seen.insert(t) && seen.len() <= 40 {
                let ch = *rng.pick(&["é", "—", "中", "🦀"]);
                out.push((format!("{}{}{}", &text[..*e], ch, &text[*e..]), "multibyte-adjacent"));
                out.push((format!("{}{}{}", &text[..*s], ch, &text[*s..]), "multibyte-adjacent"));
            }
        }
        // ... and as the very last character of the input, cut after a word
        let (_, e) = pick(rng);
        out.push((format!("{}{}", &text[..e], "é"), "multibyte-adjacent"));
    }
    // unterminated comment / quotes at random positions
    for opener in ["/*", "\"", "'", "//", "#"] {
        let (s, _) = pick(rng);
        out.push((format!("{}{}{}", &text[..s], opener, &text[s..]), "unterminated"));
    }
    out
}

fn deep_inputs() -> Vec<(String, usize, &'static str)> {
    let mut v = vec![];
    for depth in [1usize, 8, 32, 63, 64, 65, 100, 1000, 20000] {
        let ty = format!("{}i32{}", "list<".repeat(depth), ">".repeat(depth));
        v.push((format!("struct S {{ 1: {} f }}", ty), depth, "list-type"));
        let mty = format!("{}i32{}", "map<i8,".repeat(depth), ">".repeat(depth));
        v.push((format!("typedef {} T", mty), depth, "map-type"));
        v.push((format!("const i32 X = {}1{}", "[".repeat(depth), "]".repeat(depth)), depth, "list-literal"));
        v.push((format!("const i32 X = {}2{}", "{1:".repeat(depth), "}".repeat(depth)), depth, "map-literal"));
        v.push((format!("const i32 X = {}1", "-".repeat(depth)), depth, "minus-run"));
        v.push((format!("struct S {{ 1: i32 f = {}1 }}", "-".repeat(depth)), depth, "minus-run-default"));
        v.push((format!("const i32 X = {}", "[".repeat(depth)), depth, "unclosed-list"));
        v.push((format!("struct S {{ 1: {}i32 f }}", "set<".repeat(depth)), depth, "unclosed-type"));
    }
    v
}

fn c16_fixed() -> u64 {
    deep_inputs().len() as u64
}

fn c16_case(ctx: &Ctx, idx: u64, frag: &mut Frag) {
    if idx < c16_fixed() {
        // deep nesting: one input per case (so that a stack overflow, i.e. the death of
        // the worker, loses no other observation), on its own 2 MiB stack thread
        let (text, depth, kind) = deep_inputs().swap_remove(idx as usize);
        if !sub_mark_n(0, &format!("c16 deep kind={} depth={} in_clause={}", kind, depth, depth <= 64)) {
            return; // a previous worker already died on this input
        }
        frag.eval();
        frag.count(&format!("deep.{}.{}", kind, if depth <= 64 { "le64" } else { "gt64" }));
        frag.distinct(fnv1a(format!("{}{}", kind, depth).as_bytes()));
        let t2 = text.clone();
        match on_stack(STACK_2MIB, move || parse_guarded(&t2)) {
            Ok(_) => {
                // counted only when the parse came back: the floor is about survived depth-64 inputs
                if depth == 64 {
                    frag.count(&format!("deep64.{}", kind));
                }
            }
            Err(p) => frag.violation(&format!("c16|panic|{}|{}", p.site(), p.class()), &format!("parser panicked at {}: {} (deep {} depth {})", p.location, p.message, kind, depth), json!({"text": text.chars().take(300).collect::<String>(), "kind": kind, "depth": depth})),
        }
        return;
    }
    let mut rng = Rng::new(ctx.seed ^ 0xC16 ^ idx.wrapping_mul(0x9E37_79B9_7F4A_7C15));
    let mut inputs: Vec<(String, &'static str)> = vec![];
    match idx % 3 {
        0 => {
            // random UTF-8
            for _ in 0..40 {
                let n = match rng.below(6) {
                    0 => 65536,
                    1 => 4096,
                    _ => rng.usize_below(200),
                };
                let mut s = String::with_capacity(n);
                const ALPH: [&str; 40] = ["struct", "union", "enum", "service", "const", "typedef", "include", "namespace", "required", "optional", "oneway", "throws", "extends", "list", "map", "set", "i32", "string", "true", "false", "{", "}", "(", ")", "<", ">", "[", "]", "=", ":", ",", ";", "\"", "'", "/*", "*/", "//", "#", "-", "."];
                while s.len() < n {
                    match rng.below(5) {
                        0 => s.push_str(*rng.pick(&ALPH)),
                        1 => s.push(' '),
                        2 => s.push(char::from_u32(rng.below(0x2000) as u32).unwrap_or('x')),
                        3 => s.push_str(&format!("{}", rng.below(100000))),
                        _ => s.push((b'a' + rng.below(26) as u8) as char),
                    }
                }
                inputs.push((s, "random-utf8"));
            }
        }
        _ => {
            let doc = {
                let mut g = DocGen::new(&mut rng);
                g.file()
            };
            let mut lrng = rng.fork(7);
            let mut l = Layout { rng: &mut lrng, wild: idx % 2 == 0, used: Default::default() };
            let text = l.file(&doc);
            for (m, k) in mutants(&text, &mut rng, frag) {
                inputs.push((m, k));
            }
        }
    }
    if frag.samples.len() < 2 && idx % 37 == 1 {
        if let Some((t, k)) = inputs.first() {
            frag.sample(json!({"idx": idx, "operator": k, "text": t.chars().take(300).collect::<String>()}));
        }
    }
    let n = inputs.len();
    let results = on_stack(STACK_2MIB, move || {
        let mut r = vec![];
        for (i, (t, k)) in inputs.iter().enumerate() {
            sub_mark(&format!("c16 {} {}", k, t.chars().take(160).collect::<String>().replace('\n', "\\n")));
            r.push((i, *k, parse_guarded(t), fnv1a(t.as_bytes()), t.chars().take(400).collect::<String>()));
        }
        r
    });
    let _ = n;
    for (_, k, res, h, text) in results {
        frag.eval();
        frag.count(&format!("op.{}", k));
        frag.distinct(h);
        match res {
            Ok(true) => frag.count("outcome.ok"),
            Ok(false) => frag.count("outcome.err"),
            Err(p) => frag.violation(&format!("c16|panic|{}|{}", p.site(), p.class()), &format!("parser panicked at {}: {} (operator {})", p.location, p.message, k), json!({"operator": k, "text": text})),
        }
    }
}

impl Check for C16 {
    fn id(&self) -> &'static str {
        "c16"
    }
    fn rule(&self) -> String {
        "inputs: random UTF-8/keyword soup up to 64 KiB; token-level mutants (delete, duplicate, replace by punctuation, swap) of generated valid documents in canonical and random layouts; EVERY numeric token inflated to 11, 20, 40 and 400 digits and replaced by the integer-type boundaries; a multi-byte character glued to every distinct word token (before it, after it, and as the last character of a cut input); a multi-byte character glued to every distinct word token (before and after it, and as last character of a cut input); unterminated /* \" ' // # inserted at random positions; nesting of list<..>, map<..>, [..], {..} and '-' runs at depths 1, 8, 32, 63, 64 (in the statement's clause) and 65, 100, 1000, 20000 (outside it: only 'no panic' is judged, a stack overflow there is logged). Every parse runs on a 2 MiB-stack thread inside a supervised worker process. Oracle: Ok or Err, no panic, worker alive. distinct = hashes of input texts".into()
    }
    fn ncases(&self, ctx: &Ctx) -> u64 {
        c16_fixed() + ctx.scale(3_000, 300_000)
    }
    fn label(&self, _ctx: &Ctx, idx: u64) -> String {
        if idx < c16_fixed() { format!("deep{}", idx) } else { format!("batch{}", idx) }
    }
    fn run_case(&self, ctx: &Ctx, idx: u64, frag: &mut Frag) {
        c16_case(ctx, idx, frag);
    }
    fn risky(&self, _ctx: &Ctx, idx: u64) -> bool {
        idx <= c16_fixed()
    }
    fn replay(&self, _ctx: &Ctx, case: &Value, frag: &mut Frag) -> bool {
        match case["text"].as_str() {
            Some(t) => {
                let t2 = t.to_string();
                if let Err(p) = on_stack(STACK_2MIB, move || parse_guarded(&t2)) {
                    frag.violation(&format!("c16|panic|{}|{}", p.site(), p.class()), &p.message, case.clone());
                }
                true
            }
            None => false,
        }
    }
    fn finish(&self, _ctx: &Ctx, r: &mut Report, deaths: &[Death]) {
        for d in deaths {
            let sub = d.label.split("::").nth(1).unwrap_or("").trim().to_string();
            if sub.contains("in_clause=false") {
                // nesting beyond 64: outside the stack clause of the statement
                r.frag.count("deaths_beyond_depth_64(logged-not-judged)");
                let kind = sub.split_whitespace().find(|w| w.starts_with("kind=")).unwrap_or("kind=?");
                r.frag.count(&format!("stack_overflow_beyond_64.{}", kind));
                continue;
            }
            let kind = sub.split_whitespace().find(|w| w.starts_with("kind=")).unwrap_or("other").to_string();
            r.frag.violation(&format!("c16|death|{}|{}", d.class(), kind), &format!("worker died ({}) while parsing: {}", d.class(), d.label), death_json(d));
        }
        r.assume("nesting deeper than 64 levels is outside the statement's stack clause: a stack overflow there is counted, not judged");
        for k in ["delete", "duplicate", "replace", "swap", "number-inflate", "number-boundary", "multibyte-adjacent", "unterminated", "random-utf8"] {
            r.floor(&format!("op.{}", k), 1000);
        }
        r.floor("numeric_positions_inflated", 1000);
        for k in ["list-type", "map-type", "list-literal", "map-literal", "minus-run"] {
            r.floor(&format!("deep64.{}", k), 1);
        }
    }
}

fn main() {
    let checks: Vec<&dyn Check> = vec![&C15, &C16];
    std::process::exit(monitors::driver::main_with(&checks));
}
