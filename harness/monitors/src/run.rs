//! Panic capture, CPU-time meter, fixed-stack threads, sharded execution and
//! the process supervisor.

use std::cell::RefCell;
use std::io::{BufRead, BufReader, Write};
use std::panic::{AssertUnwindSafe, catch_unwind};
use std::process::{Command, Stdio};
use std::sync::Once;

use serde_json::{Value, json};

use crate::evidence::{Ctx, Frag};

#[derive(Clone, Debug)]
pub struct PanicRec {
    pub location: String,
    pub message: String,
}

impl PanicRec {
    /// message class: digits and quoted payloads collapsed, so one defect gives
    /// one key however the numbers vary
    pub fn class(&self) -> String {
        let mut out = String::new();
        let mut last_digit = false;
        let mut quoted = false;
        for c in self.message.chars() {
            if out.len() >= 120 {
                break;
            }
            if c == '`' {
                quoted = !quoted;
                if quoted {
                    out.push_str("`_`");
                }
                continue;
            }
            if quoted {
                continue;
            }
            if c.is_ascii_digit() {
                if !last_digit {
                    out.push('N');
                }
                last_digit = true;
            } else {
                last_digit = false;
                out.push(c);
            }
        }
        out
    }
    /// file (without line) of the panic site, path made relative to known roots
    pub fn site(&self) -> String {
        let f = self.location.split(':').next().unwrap_or("");
        let f = f.trim_start_matches("/repo/");
        if let Some(i) = f.find("/registry/src/") {
            let rest = &f[i + "/registry/src/".len()..];
            let rest = rest.split_once('/').map(|x| x.1).unwrap_or(rest);
            return rest.to_string();
        }
        if let Some(i) = f.find("/library/") {
            return f[i + 1..].to_string();
        }
        f.to_string()
    }
}

thread_local! {
    static LAST_PANIC: RefCell<Option<PanicRec>> = const { RefCell::new(None) };
    static CAPTURING: std::cell::Cell<bool> = const { std::cell::Cell::new(false) };
}

static HOOK: Once = Once::new();

fn install_hook() {
    HOOK.call_once(|| {
        let prev = std::panic::take_hook();
        std::panic::set_hook(Box::new(move |info| {
            let capturing = CAPTURING.with(|c| c.get());
            {
                // about to abort (a std `ub_checks` precondition, a panic in a
                // nounwind function): leave the message on stderr for the supervisor
                let m = format!("{}", info);
                if m.contains("unsafe precondition") || m.contains("cannot unwind") || m.contains("misaligned") || m.contains("null pointer") {
                    eprintln!("NON-UNWINDING PANIC: {}", m);
                }
            }
            if capturing {
                let location = info
                    .location()
                    .map(|l| format!("{}:{}", l.file(), l.line()))
                    .unwrap_or_default();
                let message = if let Some(s) = info.payload().downcast_ref::<&str>() {
                    s.to_string()
                } else if let Some(s) = info.payload().downcast_ref::<String>() {
                    s.clone()
                } else {
                    "<non-string payload>".to_string()
                };
                // one line on stderr as well: if the process dies while this panic unwinds
                // (seen: SIGSEGV inside _Unwind_Resume), the supervisor still learns what
                // panicked, and in which sub-step
                {
                    let line = format!("VERIF-PANIC ord={} {} :: {}\n", crate::driver::current_sub_ordinal(), location, message.chars().take(160).collect::<String>().replace('\n', " "));
                    #[cfg(not(miri))]
                    unsafe {
                        libc::write(2, line.as_ptr() as *const _, line.len());
                    }
                    #[cfg(miri)]
                    eprint!("{}", line);
                }
                LAST_PANIC.with(|p| *p.borrow_mut() = Some(PanicRec { location, message }));
            } else {
                prev(info);
            }
        }));
    });
}

/// Run `f`, turning a panic into a record (location + message). Quiet.
pub fn catch<T>(f: impl FnOnce() -> T) -> Result<T, PanicRec> {
    install_hook();
    let was = CAPTURING.with(|c| c.replace(true));
    let r = catch_unwind(AssertUnwindSafe(f));
    CAPTURING.with(|c| c.set(was));
    match r {
        Ok(v) => Ok(v),
        Err(_) => Err(LAST_PANIC.with(|p| p.borrow_mut().take()).unwrap_or(PanicRec {
            location: String::new(),
            message: "<unknown panic>".into(),
        })),
    }
}

/// CPU time consumed by the calling thread, in nanoseconds.
#[cfg(miri)]
pub fn thread_cpu_ns() -> u64 {
    0
}

#[cfg(not(miri))]
pub fn thread_cpu_ns() -> u64 {
    let mut ts = libc::timespec {
        tv_sec: 0,
        tv_nsec: 0,
    };
    unsafe { libc::clock_gettime(libc::CLOCK_THREAD_CPUTIME_ID, &mut ts) };
    ts.tv_sec as u64 * 1_000_000_000 + ts.tv_nsec as u64
}

/// Run `f` on a fresh thread with exactly `stack` bytes of stack.
pub fn on_stack<T: Send + 'static>(stack: usize, f: impl FnOnce() -> T + Send + 'static) -> T {
    std::thread::Builder::new()
        .stack_size(stack)
        .spawn(f)
        .expect("spawn")
        .join()
        .expect("fixed-stack thread panicked outside catch()")
}

pub const STACK_2MIB: usize = 2 * 1024 * 1024;

/// Run `shards` closures on threads (each with a 16 MiB stack so the harness's
/// own recursion never interferes), merge their fragments.
pub fn run_sharded(
    threads: usize,
    f: impl Fn(usize, usize) -> Frag + Send + Sync + 'static,
) -> Frag {
    let f = std::sync::Arc::new(f);
    let mut hs = vec![];
    for i in 0..threads {
        let f = f.clone();
        hs.push(
            std::thread::Builder::new()
                .stack_size(64 << 20)
                .name(format!("shard{}", i))
                .spawn(move || f(i, threads))
                .expect("spawn shard"),
        );
    }
    let mut total = Frag::new();
    for (i, h) in hs.into_iter().enumerate() {
        match h.join() {
            Ok(fr) => total.merge(fr),
            Err(_) => total.inconclusive(&format!("harness shard {} panicked outside catch()", i)),
        }
    }
    total
}

// ---------------------------------------------------------------------------
// process supervisor
//
// Worker protocol on the worker's stdout (one line each, flushed):
//   B <idx> <label>    case idx is about to run
//   E <idx>            case idx finished
//   R <json>           fragment of observations since the previous R
//   D                  worker done with its shard
// The parent restarts a worker that died after `B i` at `--from i+1`, and
// records the death as an observation on case i.

pub struct WorkerIo {
    out: std::io::Stdout,
}

impl WorkerIo {
    pub fn new() -> Self {
        WorkerIo {
            out: std::io::stdout(),
        }
    }
    pub fn begin(&mut self, idx: u64, label: &str) {
        let mut o = self.out.lock();
        let _ = writeln!(o, "B {} {}", idx, label.replace('\n', " "));
        let _ = o.flush();
    }
    pub fn end(&mut self, idx: u64) {
        let mut o = self.out.lock();
        let _ = writeln!(o, "E {}", idx);
        let _ = o.flush();
    }
    pub fn frag(&mut self, f: &Frag) {
        let mut o = self.out.lock();
        let _ = writeln!(o, "R {}", serde_json::to_string(&f.to_json()).unwrap());
        let _ = o.flush();
    }
    pub fn done(&mut self) {
        let mut o = self.out.lock();
        let _ = writeln!(o, "D");
        let _ = o.flush();
    }
}

impl Default for WorkerIo {
    fn default() -> Self {
        Self::new()
    }
}

#[derive(Debug, Clone)]
pub struct Death {
    pub shard: usize,
    /// ordinal of the sub-step in flight (u64::MAX = unknown)
    pub ordinal: u64,
    pub idx: u64,
    pub label: String,
    pub status: String,
    pub stderr_tail: String,
}

impl Death {
    /// the last panic the worker reported before it died, if it belongs to the sub-step
    /// that was in flight: (location, message)
    pub fn last_panic(&self) -> Option<(String, String)> {
        let line = self.stderr_tail.lines().rev().find(|l| l.starts_with("VERIF-PANIC "))?;
        let rest = line.strip_prefix("VERIF-PANIC ord=")?;
        let (ord, rest) = rest.split_once(' ')?;
        let ord: u64 = ord.parse().ok()?;
        if self.ordinal != u64::MAX && ord != u64::MAX && ord != self.ordinal {
            return None;
        }
        let (loc, msg) = rest.split_once(" :: ")?;
        Some((loc.to_string(), msg.to_string()))
    }

    /// classification used in violation keys
    pub fn class(&self) -> String {
        let t = &self.stderr_tail;
        if t.contains("has overflowed its stack") || t.contains("stack overflow") {
            "stack-overflow".into()
        } else if t.contains("VERIF-ALLOC-REFUSED") || t.contains("memory allocation of") {
            "alloc-failure".into()
        } else if t.contains("unsafe precondition(s) violated") {
            "ub-check-abort".into()
        } else if t.contains("AddressSanitizer") {
            "asan".into()
        } else if t.contains("Undefined Behavior") {
            "miri-undefined-behavior".into()
        } else if t.contains("unsupported operation") && t.contains("Miri") {
            "miri-unsupported".into()
        } else if t.contains("panic in a function that cannot unwind")
            || t.contains("panicked")
        {
            "abort-on-panic".into()
        } else {
            format!("died:{}", self.status)
        }
    }
}

/// Run `shards` worker processes (`exe args... --shard i --nshards n --from k`)
/// with at most `parallel` alive at once. Returns merged fragment and deaths.
pub fn supervise(
    ctx: &Ctx,
    exe: &std::path::Path,
    args: &[String],
    shards: usize,
    parallel: usize,
    max_restarts_per_shard: usize,
    envs: &[(String, String)],
) -> (Frag, Vec<Death>) {
    let results = std::sync::Mutex::new((Frag::new(), Vec::<Death>::new()));
    let next = std::sync::atomic::AtomicUsize::new(0);
    std::thread::scope(|s| {
        for _ in 0..parallel.min(shards).max(1) {
            s.spawn(|| {
                loop {
                    let shard = next.fetch_add(1, std::sync::atomic::Ordering::SeqCst);
                    if shard >= shards {
                        break;
                    }
                    let mut from: u64 = 0;
                    let mut subskip: u64 = 0;
                    let mut restarts = 0;
                    loop {
                        let (frag, outcome) =
                            run_worker(ctx, exe, args, shard, shards, from, subskip, envs);
                        let mut g = results.lock().unwrap();
                        g.0.merge(frag);
                        match outcome {
                            WorkerOutcome::Done => break,
                            WorkerOutcome::Died(mut d) => {
                                // resume inside the same case when the worker told us
                                // which sub-step it was executing
                                let (ord, text) = read_sub(envs, shard);
                                d.ordinal = ord;
                                if !text.is_empty() {
                                    d.label = format!("{} :: {}", d.label, text);
                                }
                                if ord != u64::MAX {
                                    from = d.idx;
                                    subskip = ord + 1;
                                } else {
                                    from = d.idx + 1;
                                    subskip = 0;
                                }
                                g.1.push(d);
                                restarts += 1;
                                if restarts > max_restarts_per_shard {
                                    g.0.inconclusive(&format!(
                                        "shard {} exceeded {} restarts",
                                        shard, max_restarts_per_shard
                                    ));
                                    break;
                                }
                            }
                            WorkerOutcome::Broken(why) => {
                                g.0.inconclusive(&format!("worker shard {}: {}", shard, why));
                                break;
                            }
                        }
                    }
                }
            });
        }
    });
    results.into_inner().unwrap()
}

/// (ordinal, text) stored by `driver::sub_mark[_n]` in the shard's shared marker file
fn read_sub(envs: &[(String, String)], shard: usize) -> (u64, String) {
    for (k, v) in envs {
        if k == "VERIF_SUBFILE_DIR" {
            let p = format!("{}/sub-{}-{}", v, std::process::id(), shard);
            if let Ok(b) = std::fs::read(&p) {
                if b.len() >= 16 {
                    let mut a = [0u8; 8];
                    a.copy_from_slice(&b[b.len() - 8..]);
                    let n = u16::from_le_bytes([b[0], b[1]]) as usize;
                    let text = String::from_utf8_lossy(&b[2..(2 + n).min(b.len() - 8)]).to_string();
                    return (u64::from_le_bytes(a), text);
                }
            }
        }
    }
    (u64::MAX, String::new())
}

enum WorkerOutcome {
    Done,
    Died(Death),
    Broken(String),
}

fn run_worker(
    ctx: &Ctx,
    exe: &std::path::Path,
    args: &[String],
    shard: usize,
    shards: usize,
    from: u64,
    subskip: u64,
    envs: &[(String, String)],
) -> (Frag, WorkerOutcome) {
    let tmpdir = ctx.root.join("work").join("tmp");
    let _ = std::fs::create_dir_all(&tmpdir);
    let errpath = tmpdir.join(format!(
        "verif-worker-{}-{}-{}.err",
        std::process::id(),
        shard,
        from
    ));
    let errfile = match std::fs::File::create(&errpath) {
        Ok(f) => f,
        Err(e) => return (Frag::new(), WorkerOutcome::Broken(format!("stderr file: {}", e))),
    };
    // VERIF_WORKER_CMD: run the workers through another launcher (e.g. `cargo +nightly miri
    // run -p rtcheck --`); the worker protocol on stdout is unchanged
    let mut cmd = match std::env::var("VERIF_WORKER_CMD") {
        Ok(tpl) if !tpl.trim().is_empty() => {
            let mut parts = tpl.split_whitespace();
            let mut c = Command::new(parts.next().unwrap());
            c.args(parts);
            if let Ok(d) = std::env::var("VERIF_WORKER_CWD") {
                c.current_dir(d);
            }
            c
        }
        _ => Command::new(exe),
    };
    cmd.args(args)
        .arg("--worker")
        .arg("--shard")
        .arg(shard.to_string())
        .arg("--nshards")
        .arg(shards.to_string())
        .arg("--from")
        .arg(from.to_string())
        .arg("--subskip")
        .arg(subskip.to_string())
        .env("VERIF_SEED", (ctx.seed as i64).to_string())
        .env("VERIF_TIER", &ctx.tier)
        .env("VERIF_ROOT", &ctx.root)
        .env("RUST_BACKTRACE", "0")
        .stdin(Stdio::null())
        .stdout(Stdio::piped())
        .stderr(Stdio::from(errfile));
    for (k, v) in envs {
        cmd.env(k, v);
        if k == "VERIF_SUBFILE_DIR" {
            cmd.env(
                "VERIF_SUBFILE",
                format!("{}/sub-{}-{}", v, std::process::id(), shard),
            );
        }
    }
    let mut child = match cmd.spawn() {
        Ok(c) => c,
        Err(e) => return (Frag::new(), WorkerOutcome::Broken(format!("spawn: {}", e))),
    };
    let stdout = child.stdout.take().unwrap();
    let mut frag = Frag::new();
    let mut inflight: Option<(u64, String)> = None;
    let mut done = false;
    for line in BufReader::new(stdout).lines() {
        let line = match line {
            Ok(l) => l,
            Err(_) => break,
        };
        if let Some(rest) = line.strip_prefix("B ") {
            let mut it = rest.splitn(2, ' ');
            let idx = it.next().and_then(|x| x.parse().ok()).unwrap_or(0);
            inflight = Some((idx, it.next().unwrap_or("").to_string()));
        } else if line.starts_with("E ") {
            inflight = None;
        } else if let Some(rest) = line.strip_prefix("R ") {
            if let Ok(j) = serde_json::from_str::<Value>(rest) {
                frag.merge(Frag::from_json(&j));
            }
        } else if line == "D" {
            done = true;
        }
    }
    let status = child.wait();
    let tail = read_tail(&errpath, 262144);
    let _ = std::fs::remove_file(&errpath);
    let status_s = match &status {
        Ok(s) => {
            use std::os::unix::process::ExitStatusExt;
            if let Some(sig) = s.signal() {
                format!("signal{}", sig)
            } else {
                format!("exit{}", s.code().unwrap_or(-1))
            }
        }
        Err(e) => format!("wait-error:{}", e),
    };
    if done && status.as_ref().map(|s| s.success()).unwrap_or(false) {
        return (frag, WorkerOutcome::Done);
    }
    match inflight {
        Some((idx, label)) => (
            frag,
            WorkerOutcome::Died(Death {
                shard,
                ordinal: u64::MAX,
                idx,
                label,
                status: status_s,
                stderr_tail: tail,
            }),
        ),
        None => (
            frag,
            WorkerOutcome::Broken(format!(
                "worker ended ({}) outside any case; stderr: {}",
                status_s,
                tail.chars().rev().take(300).collect::<String>().chars().rev().collect::<String>()
            )),
        ),
    }
}

fn read_tail(p: &std::path::Path, n: usize) -> String {
    match std::fs::read(p) {
        Ok(b) => {
            let s = if b.len() > n { &b[b.len() - n..] } else { &b[..] };
            String::from_utf8_lossy(s).to_string()
        }
        Err(_) => String::new(),
    }
}

/// parse `--worker --shard i --nshards n --from k` from argv
#[derive(Debug, Clone, Default)]
pub struct WorkerArgs {
    pub is_worker: bool,
    pub shard: usize,
    pub nshards: usize,
    pub from: u64,
    /// ordinals below this are skipped inside case `from` (resume inside a case
    /// after the worker died in it)
    pub subskip: u64,
}

pub fn worker_args(args: &[String]) -> WorkerArgs {
    let mut w = WorkerArgs {
        nshards: 1,
        ..Default::default()
    };
    let mut i = 0;
    while i < args.len() {
        match args[i].as_str() {
            "--worker" => w.is_worker = true,
            "--shard" => {
                w.shard = args.get(i + 1).and_then(|x| x.parse().ok()).unwrap_or(0);
                i += 1;
            }
            "--nshards" => {
                w.nshards = args.get(i + 1).and_then(|x| x.parse().ok()).unwrap_or(1);
                i += 1;
            }
            "--from" => {
                w.from = args.get(i + 1).and_then(|x| x.parse().ok()).unwrap_or(0);
                i += 1;
            }
            "--subskip" => {
                w.subskip = args.get(i + 1).and_then(|x| x.parse().ok()).unwrap_or(0);
                i += 1;
            }
            _ => {}
        }
        i += 1;
    }
    w
}

pub fn death_json(d: &Death) -> Value {
    json!({"case_index": d.idx, "label": d.label, "status": d.status, "class": d.class(),
           "stderr_head": d.stderr_tail.chars().take(500).collect::<String>(),
           "stderr_tail": d.stderr_tail.chars().rev().take(300).collect::<String>().chars().rev().collect::<String>()})
}
