//! Scripted `AsyncRead` and a deterministic single-thread, poll-counting
//! executor. Logical time = number of polls; no timers anywhere.

use std::future::Future;
use std::pin::Pin;
use std::sync::Arc;
use std::sync::atomic::{AtomicUsize, Ordering};
use std::task::{Context, Poll, Wake, Waker};

use tokio::io::{AsyncRead, ReadBuf};

/// Delivery schedule: `chunks[i]` = how many bytes the i-th delivery may hand
/// out at most (after the list is exhausted: `tail` bytes per delivery, 0 =
/// unlimited). `pending_at` = indices of `poll_read` *calls* (counted over the
/// whole stream) that first return `Pending` after waking themselves.
#[derive(Clone, Debug, Default)]
pub struct Schedule {
    pub chunks: Vec<usize>,
    pub tail: usize,
    pub pending_at: Vec<usize>,
    /// `Pending` before every read
    pub pending_always: bool,
}

impl Schedule {
    pub fn all_at_once() -> Self {
        Schedule::default()
    }
    pub fn byte_at_a_time() -> Self {
        Schedule {
            tail: 1,
            ..Default::default()
        }
    }
    pub fn splits(points: &[usize]) -> Self {
        // split points are absolute offsets, ascending
        let mut chunks = Vec::new();
        let mut last = 0;
        for p in points {
            if *p > last {
                chunks.push(*p - last);
                last = *p;
            }
        }
        Schedule {
            chunks,
            tail: 0,
            ..Default::default()
        }
    }
    pub fn render(&self) -> String {
        format!(
            "chunks={:?} tail={} pending_at={:?} pending_always={}",
            self.chunks, self.tail, self.pending_at, self.pending_always
        )
    }
}

pub struct ScriptedReader {
    data: Vec<u8>,
    pos: usize,
    sched: Schedule,
    chunk_idx: usize,
    chunk_left: usize,
    /// number of poll_read calls that delivered or reached EOF (logical read index)
    pub reads: usize,
    pending_fired_for: Option<usize>,
    pub pendings: usize,
    pub polls: usize,
    /// highest offset handed out
    pub handed: usize,
    pub eof_hits: usize,
}

impl ScriptedReader {
    pub fn new(data: Vec<u8>, sched: Schedule) -> Self {
        let first = sched.chunks.first().copied();
        let tail = sched.tail;
        ScriptedReader {
            data,
            pos: 0,
            chunk_idx: 0,
            chunk_left: first.unwrap_or(if tail == 0 { usize::MAX } else { tail }),
            sched,
            reads: 0,
            pending_fired_for: None,
            pendings: 0,
            polls: 0,
            handed: 0,
            eof_hits: 0,
        }
    }
    pub fn consumed(&self) -> usize {
        self.pos
    }
}

impl AsyncRead for ScriptedReader {
    fn poll_read(
        mut self: Pin<&mut Self>,
        cx: &mut Context<'_>,
        buf: &mut ReadBuf<'_>,
    ) -> Poll<std::io::Result<()>> {
        let this = &mut *self;
        this.polls += 1;
        let idx = this.reads;
        let want_pending = this.sched.pending_always || this.sched.pending_at.contains(&idx);
        if want_pending && this.pending_fired_for != Some(idx) {
            this.pending_fired_for = Some(idx);
            this.pendings += 1;
            cx.waker().wake_by_ref();
            return Poll::Pending;
        }
        this.reads += 1;
        let avail = this.data.len() - this.pos;
        if avail == 0 {
            this.eof_hits += 1;
            return Poll::Ready(Ok(())); // EOF
        }
        if this.chunk_left == 0 {
            this.chunk_idx += 1;
            this.chunk_left = match this.sched.chunks.get(this.chunk_idx) {
                Some(c) => *c,
                None => {
                    if this.sched.tail == 0 {
                        usize::MAX
                    } else {
                        this.sched.tail
                    }
                }
            };
            if this.chunk_left == 0 {
                this.chunk_left = 1;
            }
        }
        let n = buf.remaining().min(avail).min(this.chunk_left);
        buf.put_slice(&this.data[this.pos..this.pos + n]);
        this.pos += n;
        if this.chunk_left != usize::MAX {
            this.chunk_left -= n;
        }
        if this.pos > this.handed {
            this.handed = this.pos;
        }
        Poll::Ready(Ok(()))
    }
}

struct CountWaker(AtomicUsize);
impl Wake for CountWaker {
    fn wake(self: Arc<Self>) {
        self.0.fetch_add(1, Ordering::SeqCst);
    }
    fn wake_by_ref(self: &Arc<Self>) {
        self.0.fetch_add(1, Ordering::SeqCst);
    }
}

#[derive(Debug)]
pub enum BlockErr {
    /// poll budget exhausted
    Budget(usize),
    /// returned Pending without arranging a wake-up
    Stalled(usize),
}

/// Drive `fut` to completion on the current thread. Returns the number of polls.
pub fn block_on<F: Future>(fut: F, poll_budget: usize) -> Result<(F::Output, usize), BlockErr> {
    let mut fut = std::pin::pin!(fut);
    let cw = Arc::new(CountWaker(AtomicUsize::new(0)));
    let waker = Waker::from(cw.clone());
    let mut cx = Context::from_waker(&waker);
    let mut polls = 0usize;
    loop {
        let before = cw.0.load(Ordering::SeqCst);
        polls += 1;
        match fut.as_mut().poll(&mut cx) {
            Poll::Ready(v) => return Ok((v, polls)),
            Poll::Pending => {
                if cw.0.load(Ordering::SeqCst) == before {
                    return Err(BlockErr::Stalled(polls));
                }
                if polls >= poll_budget {
                    return Err(BlockErr::Budget(polls));
                }
            }
        }
    }
}

/// A `ScriptedReader` that stays observable (bytes handed out, polls) while a
/// protocol object owns the `AsyncRead` handle.
#[derive(Clone)]
pub struct SharedReader(pub Arc<std::sync::Mutex<ScriptedReader>>);

impl SharedReader {
    pub fn new(data: Vec<u8>, sched: Schedule) -> Self {
        SharedReader(Arc::new(std::sync::Mutex::new(ScriptedReader::new(data, sched))))
    }
    pub fn handed(&self) -> usize {
        self.0.lock().unwrap().handed
    }
    pub fn polls(&self) -> usize {
        self.0.lock().unwrap().polls
    }
    pub fn reads(&self) -> usize {
        self.0.lock().unwrap().reads
    }
    pub fn pendings(&self) -> usize {
        self.0.lock().unwrap().pendings
    }
}

impl AsyncRead for SharedReader {
    fn poll_read(
        self: Pin<&mut Self>,
        cx: &mut Context<'_>,
        buf: &mut ReadBuf<'_>,
    ) -> Poll<std::io::Result<()>> {
        let mut g = self.0.lock().unwrap();
        Pin::new(&mut *g).poll_read(cx, buf)
    }
}
