//! Counting global allocator.
//!
//! * per-thread counters (const-initialised thread locals: no lazy init, no
//!   destructor, safe to touch from inside the allocator);
//! * requests of `BIG` bytes or more are served with
//!   `mmap(MAP_NORESERVE)`, so a decoder that sizes a buffer from a hostile
//!   length field is *recorded* (largest single request) instead of taking the
//!   process down; the pages are never touched unless the code under test
//!   really writes them. If even the reservation fails the request returns null
//!   (=> abort), which the process supervisor attributes to the case in flight.
//!
//! A binary opts in with
//! `#[global_allocator] static A: monitors::alloc::Counting = monitors::alloc::Counting;`

use std::alloc::{GlobalAlloc, Layout, System};
use std::cell::Cell;

pub struct Counting;

pub const BIG: usize = 256 << 20; // 256 MiB
/// requests of this size or more are refused (null => the process aborts and
/// the supervisor records the death): a hash table of that capacity memsets
/// its control bytes, i.e. really touches the memory, and 16 workers doing
/// that at once would take the box down.
pub const HUGE: usize = 1 << 30; // 1 GiB

thread_local! {
    static LIVE: Cell<isize> = const { Cell::new(0) };
    static PEAK: Cell<isize> = const { Cell::new(0) };
    static MAXREQ: Cell<usize> = const { Cell::new(0) };
    static TOTAL: Cell<usize> = const { Cell::new(0) };
    static COUNT: Cell<usize> = const { Cell::new(0) };
    static ENABLED: Cell<bool> = const { Cell::new(true) };
}

#[derive(Copy, Clone, Debug, Default)]
pub struct Snap {
    pub live: isize,
    pub peak: isize,
    pub max_req: usize,
    pub total: usize,
    pub count: usize,
}

#[inline]
fn on_alloc(size: usize) {
    let _ = LIVE.try_with(|l| {
        let v = l.get() + size as isize;
        l.set(v);
        let _ = PEAK.try_with(|p| {
            if v > p.get() {
                p.set(v)
            }
        });
    });
    let _ = MAXREQ.try_with(|m| {
        if size > m.get() {
            m.set(size)
        }
    });
    let _ = TOTAL.try_with(|t| t.set(t.get().wrapping_add(size)));
    let _ = COUNT.try_with(|c| c.set(c.get() + 1));
}

#[inline]
fn on_dealloc(size: usize) {
    let _ = LIVE.try_with(|l| l.set(l.get() - size as isize));
}

pub fn snap() -> Snap {
    Snap {
        live: LIVE.with(|x| x.get()),
        peak: PEAK.with(|x| x.get()),
        max_req: MAXREQ.with(|x| x.get()),
        total: TOTAL.with(|x| x.get()),
        count: COUNT.with(|x| x.get()),
    }
}

/// start a measurement window: peak := live, max_req := 0, total := 0
pub fn window_start() -> Snap {
    let live = LIVE.with(|x| x.get());
    PEAK.with(|p| p.set(live));
    MAXREQ.with(|m| m.set(0));
    TOTAL.with(|t| t.set(0));
    COUNT.with(|c| c.set(0));
    snap()
}

unsafe impl GlobalAlloc for Counting {
    unsafe fn alloc(&self, layout: Layout) -> *mut u8 {
        let size = layout.size();
        if size >= HUGE {
            let _ = MAXREQ.try_with(|m| {
                if size > m.get() {
                    m.set(size)
                }
            });
            let msg = b"VERIF-ALLOC-REFUSED\n";
            unsafe { libc::write(2, msg.as_ptr() as *const _, msg.len()) };
            return std::ptr::null_mut();
        }
        if size >= BIG {
            on_alloc(size);
            let p = unsafe {
                libc::mmap(
                    std::ptr::null_mut(),
                    size,
                    libc::PROT_READ | libc::PROT_WRITE,
                    libc::MAP_PRIVATE | libc::MAP_ANONYMOUS | libc::MAP_NORESERVE,
                    -1,
                    0,
                )
            };
            if p == libc::MAP_FAILED {
                on_dealloc(size);
                // leave a trace for the supervisor
                let msg = b"VERIF-ALLOC-REFUSED\n";
                unsafe { libc::write(2, msg.as_ptr() as *const _, msg.len()) };
                return std::ptr::null_mut();
            }
            return p as *mut u8;
        }
        let p = unsafe { System.alloc(layout) };
        if !p.is_null() {
            on_alloc(size);
        }
        p
    }

    unsafe fn alloc_zeroed(&self, layout: Layout) -> *mut u8 {
        let size = layout.size();
        if size >= BIG {
            // fresh anonymous mappings are zero
            return unsafe { self.alloc(layout) };
        }
        let p = unsafe { System.alloc_zeroed(layout) };
        if !p.is_null() {
            on_alloc(size);
        }
        p
    }

    unsafe fn dealloc(&self, ptr: *mut u8, layout: Layout) {
        let size = layout.size();
        on_dealloc(size);
        if size >= BIG {
            unsafe { libc::munmap(ptr as *mut _, size) };
        } else {
            unsafe { System.dealloc(ptr, layout) }
        }
    }

    unsafe fn realloc(&self, ptr: *mut u8, layout: Layout, new_size: usize) -> *mut u8 {
        let old = layout.size();
        if old < BIG && new_size < BIG {
            let p = unsafe { System.realloc(ptr, layout, new_size) };
            if !p.is_null() {
                on_dealloc(old);
                on_alloc(new_size);
            }
            return p;
        }
        // generic path across the mmap boundary
        let new_layout = unsafe { Layout::from_size_align_unchecked(new_size, layout.align()) };
        let np = unsafe { self.alloc(new_layout) };
        if !np.is_null() {
            unsafe {
                std::ptr::copy_nonoverlapping(ptr, np, old.min(new_size));
                self.dealloc(ptr, layout);
            }
        }
        np
    }
}

pub fn set_enabled(_on: bool) {
    ENABLED.with(|e| e.set(_on));
}
