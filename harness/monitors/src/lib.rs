pub mod aio;
#[cfg(not(miri))]
pub mod alloc;
#[cfg(miri)]
#[path = "alloc_stub.rs"]
pub mod alloc;
pub mod driver;
pub mod evidence;
pub mod run;
