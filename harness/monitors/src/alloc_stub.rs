//! Stand-in for the counting allocator under Miri (no libc mmap there): the
//! API exists, nothing is counted.
#[derive(Copy, Clone, Debug, Default)]
pub struct Snap {
    pub live: isize,
    pub peak: isize,
    pub max_req: usize,
    pub total: usize,
    pub count: usize,
}
pub fn snap() -> Snap {
    Snap::default()
}
pub fn window_start() -> Snap {
    Snap::default()
}
