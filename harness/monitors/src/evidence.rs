//! Run context, verdict bookkeeping, known-findings matching, evidence and
//! replay files. Exit codes: 0 held (possibly with KNOWN-FINDING lines),
//! 1 violation, 3 inconclusive.

use std::collections::{BTreeMap, HashSet};
use std::io::Write;
use std::path::PathBuf;
use std::time::Instant;

use serde_json::{Map, Value, json};

#[derive(Clone, Debug)]
pub struct Ctx {
    pub start: Instant,
    pub root: PathBuf,
    pub tier: String,
    pub seed: u64,
    pub threads: usize,
}

impl Ctx {
    pub fn from_env() -> Ctx {
        let root = std::env::var("VERIF_ROOT").unwrap_or_else(|_| "/verif".to_string());
        let tier = std::env::var("VERIF_TIER").unwrap_or_else(|_| "quick".to_string());
        let tier = if tier == "thorough" { tier } else { "quick".to_string() };
        let seed = std::env::var("VERIF_SEED")
            .ok()
            .and_then(|s| s.trim().parse::<i64>().ok())
            .map(|x| x as u64)
            .unwrap_or(1);
        let threads = std::env::var("VERIF_THREADS")
            .ok()
            .and_then(|s| s.parse().ok())
            .unwrap_or_else(|| {
                std::thread::available_parallelism()
                    .map(|n| n.get())
                    .unwrap_or(4)
                    .min(16)
            });
        Ctx {
            start: Instant::now(),
            root: PathBuf::from(root),
            tier,
            seed,
            threads,
        }
    }
    pub fn thorough(&self) -> bool {
        self.tier == "thorough"
    }
    /// scale a quick-tier count for the thorough tier
    pub fn scale(&self, quick: u64, thorough: u64) -> u64 {
        if self.thorough() { thorough } else { quick }
    }
}

#[derive(Clone, Debug)]
pub struct Known {
    pub property: String,
    pub key: String,
    pub what: String,
    pub status: String,
}

/// `/verif/known_findings.txt`, one entry per line:
///   `open: property=<id> key=<key> :: <what fails>`
///   `fixed: property=<id> <commit> <what failed>`   (suppresses nothing)
/// Never written at run time.
pub fn load_known(root: &std::path::Path) -> Vec<Known> {
    let p = root.join("known_findings.txt");
    let mut v = Vec::new();
    if let Ok(s) = std::fs::read_to_string(&p) {
        for line in s.lines() {
            let line = line.trim();
            if line.is_empty() || line.starts_with('#') {
                continue;
            }
            let (status, rest) = if let Some(r) = line.strip_prefix("open:") {
                ("open", r.trim())
            } else if let Some(r) = line.strip_prefix("fixed:") {
                ("fixed", r.trim())
            } else {
                continue;
            };
            let mut property = String::new();
            let mut key = String::new();
            let (head, what) = match rest.split_once(" :: ") {
                Some((h, w)) => (h, w.to_string()),
                None => (rest, rest.to_string()),
            };
            for tok in head.split_whitespace() {
                if let Some(x) = tok.strip_prefix("property=") {
                    property = x.to_string();
                } else if let Some(x) = tok.strip_prefix("key=") {
                    key = x.to_string();
                }
            }
            v.push(Known {
                property,
                key,
                what,
                status: status.to_string(),
            });
        }
    }
    v
}

#[derive(Clone, Debug)]
pub struct Violation {
    pub key: String,
    pub what: String,
    pub replay: Value,
    pub count: u64,
}

/// Mergeable fragment of observations (one per worker thread / process).
#[derive(Default, Clone, Debug)]
pub struct Frag {
    pub evaluations: u64,
    pub counters: BTreeMap<String, u64>,
    pub distinct: HashSet<u64>,
    pub samples: Vec<Value>,
    pub violations: BTreeMap<String, Violation>,
    pub masked: BTreeMap<String, u64>,
    pub inconclusive: Vec<String>,
    pub notes: BTreeMap<String, Value>,
}

impl Frag {
    pub fn new() -> Frag {
        Frag::default()
    }
    #[inline]
    pub fn count(&mut self, k: &str) {
        self.add(k, 1)
    }
    #[inline]
    pub fn add(&mut self, k: &str, n: u64) {
        if let Some(c) = self.counters.get_mut(k) {
            *c += n;
        } else {
            self.counters.insert(k.to_string(), n);
        }
    }
    pub fn max(&mut self, k: &str, n: u64) {
        let e = self.counters.entry(k.to_string()).or_insert(0);
        if n > *e {
            *e = n;
        }
    }
    pub fn get(&self, k: &str) -> u64 {
        self.counters.get(k).copied().unwrap_or(0)
    }
    pub fn eval(&mut self) {
        self.evaluations += 1;
    }
    pub fn distinct(&mut self, h: u64) {
        self.distinct.insert(h);
    }
    pub fn sample(&mut self, v: Value) {
        if self.samples.len() < 6 {
            self.samples.push(v);
        }
    }
    /// an execution that ended in an observation belonging to another
    /// property's finding: counted, never "held", never towards floors
    pub fn masked(&mut self, by: &str) {
        *self.masked.entry(by.to_string()).or_insert(0) += 1;
    }
    pub fn violation(&mut self, key: &str, what: &str, replay: Value) {
        // keys are single tokens so they can be listed in known_findings.txt
        let key: String = key
            .chars()
            .map(|c| if c.is_whitespace() { '_' } else { c })
            .take(200)
            .collect();
        let key = key.as_str();
        if let Some(v) = self.violations.get_mut(key) {
            v.count += 1;
            return;
        }
        self.violations.insert(
            key.to_string(),
            Violation {
                key: key.to_string(),
                what: what.to_string(),
                replay,
                count: 1,
            },
        );
    }
    pub fn inconclusive(&mut self, why: &str) {
        if self.inconclusive.len() < 20 {
            self.inconclusive.push(why.to_string());
        }
    }
    pub fn merge(&mut self, o: Frag) {
        self.evaluations += o.evaluations;
        for (k, v) in o.counters {
            if k.starts_with("max_") {
                self.max(&k, v);
            } else {
                self.add(&k, v);
            }
        }
        self.distinct.extend(o.distinct);
        for s in o.samples {
            self.sample(s);
        }
        for (k, v) in o.violations {
            if let Some(e) = self.violations.get_mut(&k) {
                e.count += v.count;
            } else {
                self.violations.insert(k, v);
            }
        }
        for (k, v) in o.masked {
            *self.masked.entry(k).or_insert(0) += v;
        }
        for s in o.inconclusive {
            self.inconclusive(&s);
        }
        for (k, v) in o.notes {
            self.notes.entry(k).or_insert(v);
        }
    }

    pub fn to_json(&self) -> Value {
        json!({
            "evaluations": self.evaluations,
            "counters": self.counters,
            "distinct": self.distinct.iter().collect::<Vec<_>>(),
            "samples": self.samples,
            "violations": self.violations.values().map(|v| json!({"key": v.key, "what": v.what, "replay": v.replay, "count": v.count})).collect::<Vec<_>>(),
            "masked": self.masked,
            "inconclusive": self.inconclusive,
            "notes": self.notes,
        })
    }

    pub fn from_json(j: &Value) -> Frag {
        let mut f = Frag::new();
        f.evaluations = j["evaluations"].as_u64().unwrap_or(0);
        if let Some(m) = j["counters"].as_object() {
            for (k, v) in m {
                f.counters.insert(k.clone(), v.as_u64().unwrap_or(0));
            }
        }
        if let Some(a) = j["distinct"].as_array() {
            for x in a {
                if let Some(h) = x.as_u64() {
                    f.distinct.insert(h);
                }
            }
        }
        if let Some(a) = j["samples"].as_array() {
            f.samples = a.clone();
        }
        if let Some(a) = j["violations"].as_array() {
            for v in a {
                let key = v["key"].as_str().unwrap_or("").to_string();
                f.violations.insert(
                    key.clone(),
                    Violation {
                        key,
                        what: v["what"].as_str().unwrap_or("").to_string(),
                        replay: v["replay"].clone(),
                        count: v["count"].as_u64().unwrap_or(1),
                    },
                );
            }
        }
        if let Some(m) = j["masked"].as_object() {
            for (k, v) in m {
                f.masked.insert(k.clone(), v.as_u64().unwrap_or(0));
            }
        }
        if let Some(a) = j["inconclusive"].as_array() {
            for x in a {
                if let Some(s) = x.as_str() {
                    f.inconclusive.push(s.to_string());
                }
            }
        }
        if let Some(m) = j["notes"].as_object() {
            for (k, v) in m {
                f.notes.insert(k.clone(), v.clone());
            }
        }
        f
    }
}

pub struct Report {
    pub ctx: Ctx,
    pub property: String,
    pub level: String,
    pub rule: String,
    pub assumptions: Vec<String>,
    pub exhaustive: Option<bool>,
    pub floors: Vec<(String, u64)>,
    pub frag: Frag,
    start: Instant,
    known: Vec<Known>,
    pub extra: Map<String, Value>,
    /// wall time of merged parts
    pub wall_extra: f64,
}

impl Report {
    pub fn new(ctx: &Ctx, property: &str, level: &str, rule: &str) -> Report {
        Report {
            ctx: ctx.clone(),
            property: property.to_string(),
            level: level.to_string(),
            rule: rule.to_string(),
            assumptions: vec![],
            exhaustive: None,
            floors: vec![],
            frag: Frag::new(),
            start: ctx.start,
            known: load_known(&ctx.root),
            extra: Map::new(),
            wall_extra: 0.0,
        }
    }

    pub fn floor(&mut self, counter: &str, min: u64) {
        self.floors.push((counter.to_string(), min));
    }

    pub fn assume(&mut self, s: &str) {
        self.assumptions.push(s.to_string());
    }

    /// Serialise this (partial) report so that several check binaries can
    /// contribute to one property's evidence (see the `vmerge` tool).
    pub fn dump_part(&self, path: &std::path::Path) {
        let j = json!({
            "property": self.property,
            "level": self.level,
            "rule": self.rule,
            "assumptions": self.assumptions,
            "exhaustive": self.exhaustive,
            "floors": self.floors.iter().map(|(c, m)| json!([c, m])).collect::<Vec<_>>(),
            "frag": self.frag.to_json(),
            "extra": self.extra,
            "wall_s": self.start.elapsed().as_secs_f64(),
        });
        if let Some(d) = path.parent() {
            let _ = std::fs::create_dir_all(d);
        }
        let _ = std::fs::write(path, serde_json::to_string(&j).unwrap());
    }

    pub fn merge_part(&mut self, j: &Value) {
        if let Some(r) = j["rule"].as_str() {
            if self.rule.is_empty() {
                self.rule = r.to_string();
            } else if !self.rule.contains(r) {
                self.rule.push_str(" || ");
                self.rule.push_str(r);
            }
        }
        if let Some(a) = j["assumptions"].as_array() {
            for x in a {
                if let Some(s) = x.as_str() {
                    if !self.assumptions.iter().any(|y| y == s) {
                        self.assumptions.push(s.to_string());
                    }
                }
            }
        }
        if let Some(e) = j["exhaustive"].as_bool() {
            self.exhaustive = Some(self.exhaustive.unwrap_or(true) && e);
        }
        if let Some(a) = j["floors"].as_array() {
            for x in a {
                if let (Some(c), Some(m)) = (x[0].as_str(), x[1].as_u64()) {
                    if !self.floors.iter().any(|(c2, _)| c2 == c) {
                        self.floors.push((c.to_string(), m));
                    }
                }
            }
        }
        self.frag.merge(Frag::from_json(&j["frag"]));
        self.wall_extra += j["wall_s"].as_f64().unwrap_or(0.0);
        if let Some(m) = j["extra"].as_object() {
            for (k, v) in m {
                self.extra.entry(k.clone()).or_insert(v.clone());
            }
        }
    }

    /// Write evidence, print verdict lines, return the process exit code.
    pub fn finish(mut self) -> i32 {
        let wall = self.start.elapsed().as_secs_f64() + self.wall_extra;
        let mut new_violations: Vec<Violation> = vec![];
        let mut known_hits: Vec<(Known, u64)> = vec![];
        for v in self.frag.violations.values() {
            let k = self
                .known
                .iter()
                .find(|k| k.property == self.property && k.status == "open" && k.key == v.key);
            match k {
                Some(k) => known_hits.push((k.clone(), v.count)),
                None => new_violations.push(v.clone()),
            }
        }
        // coverage floors
        let mut unmet = vec![];
        for (c, min) in &self.floors {
            let got = self.frag.get(c);
            if got < *min {
                unmet.push(format!("floor {} = {} < {}", c, got, min));
            }
        }
        for u in &unmet {
            self.frag.inconclusive(u);
        }

        let replay_dir = self.ctx.root.join("replays").join(&self.property);
        let mut lines = vec![];
        for v in &new_violations {
            let _ = std::fs::create_dir_all(&replay_dir);
            let name = format!("{:016x}.json", refmodel::rng::fnv1a(v.key.as_bytes()));
            let path = replay_dir.join(name);
            let body = json!({
                "property": self.property,
                "key": v.key,
                "what": v.what,
                "seed": self.ctx.seed,
                "tier": self.ctx.tier,
                "occurrences": v.count,
                "case": v.replay,
            });
            let _ = std::fs::write(&path, serde_json::to_string_pretty(&body).unwrap());
            lines.push(format!(
                "VIOLATION property={} replay={} key={} :: {}",
                self.property,
                path.display(),
                v.key,
                v.what
            ));
        }

        let mut cov = Map::new();
        cov.insert("evaluations".into(), json!(self.frag.evaluations));
        cov.insert("distinct_nontrivial".into(), json!(self.frag.distinct.len()));
        cov.insert("rule".into(), json!(self.rule));
        let samples = if self.frag.samples.is_empty() {
            vec![json!("(no sample recorded)")]
        } else {
            self.frag.samples.clone()
        };
        cov.insert("samples".into(), Value::Array(samples));
        if let Some(e) = self.exhaustive {
            cov.insert("exhaustive".into(), json!(e));
        }
        cov.insert("observed".into(), json!(self.frag.counters));
        cov.insert(
            "floors".into(),
            json!(
                self.floors
                    .iter()
                    .map(|(c, m)| json!({"counter": c, "min": m, "got": self.frag.get(c)}))
                    .collect::<Vec<_>>()
            ),
        );
        cov.insert("masked_by_other_findings".into(), json!(self.frag.masked));
        cov.insert(
            "known_findings_hit".into(),
            json!(
                known_hits
                    .iter()
                    .map(|(k, n)| json!({"key": k.key, "what": k.what, "occurrences": n}))
                    .collect::<Vec<_>>()
            ),
        );
        cov.insert(
            "new_violation_keys".into(),
            json!(new_violations.iter().map(|v| v.key.clone()).collect::<Vec<_>>()),
        );
        cov.insert("inconclusive".into(), json!(self.frag.inconclusive));
        for (k, v) in &self.frag.notes {
            cov.insert(k.clone(), v.clone());
        }
        for (k, v) in &self.extra {
            cov.insert(k.clone(), v.clone());
        }
        let verdict = if !new_violations.is_empty() {
            "violated"
        } else if !self.frag.inconclusive.is_empty() {
            "inconclusive"
        } else {
            "held_on_observed"
        };
        cov.insert("verdict".into(), json!(verdict));

        let ev = json!({
            "property_id": self.property,
            "tier": self.ctx.tier,
            "seed": self.ctx.seed as i64,
            "level": self.level,
            "coverage": Value::Object(cov),
            "assumptions": self.assumptions,
            "wall_s": wall,
            "violations": new_violations.len(),
        });
        let evdir = self.ctx.root.join("evidence");
        let _ = std::fs::create_dir_all(&evdir);
        let evpath = evdir.join(format!("{}.json", self.property));
        let tmp = evdir.join(format!(".{}.json.tmp", self.property));
        if self.frag.evaluations == 0 {
            // nothing was evaluated (e.g. no check binary could be built): there is no
            // coverage to describe; a stale file of an earlier run must not stand in
            let _ = std::fs::remove_file(&evpath);
        } else {
            let _ = std::fs::write(&tmp, serde_json::to_string_pretty(&ev).unwrap());
            let _ = std::fs::rename(&tmp, &evpath);
        }

        let out = std::io::stdout();
        let mut out = out.lock();
        for (k, n) in &known_hits {
            let _ = writeln!(
                out,
                "KNOWN-FINDING: property={} {} [key={} occurrences={}]",
                self.property, k.what, k.key, n
            );
        }
        for l in &lines {
            let _ = writeln!(out, "{}", l);
        }
        let _ = writeln!(
            out,
            "{} {}: verdict={} evaluations={} distinct_nontrivial={} violations={} known={} masked={} wall={:.1}s",
            self.property,
            self.ctx.tier,
            verdict,
            self.frag.evaluations,
            self.frag.distinct.len(),
            new_violations.len(),
            known_hits.len(),
            self.frag.masked.values().sum::<u64>(),
            wall
        );
        if !new_violations.is_empty() {
            return 1;
        }
        if !self.frag.inconclusive.is_empty() {
            for s in &self.frag.inconclusive {
                let _ = writeln!(out, "INCONCLUSIVE property={} {}", self.property, s);
            }
            return 3;
        }
        0
    }
}
