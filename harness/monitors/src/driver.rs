//! Generic check driver: a check is a deterministic, indexable stream of cases.
//! The parent process supervises `shards` worker processes; every case index is
//! announced before it runs, so an abnormal exit (abort from a std
//! `ub_checks` precondition, stack overflow, allocation failure, sanitizer
//! report) is attributed to the case in flight, recorded as an observation,
//! and the worker restarted after it.

use std::sync::atomic::{AtomicPtr, Ordering};

use serde_json::{Value, json};

use crate::evidence::{Ctx, Frag, Report};
use crate::run::{Death, WorkerArgs, WorkerIo, death_json, supervise, worker_args};

pub trait Check: Sync {
    fn id(&self) -> &'static str;
    fn level(&self) -> &'static str {
        "exploration"
    }
    fn rule(&self) -> String;
    /// total number of cases (case `i` runs on shard `i % nshards`)
    fn ncases(&self, ctx: &Ctx) -> u64;
    fn label(&self, _ctx: &Ctx, idx: u64) -> String {
        format!("case{}", idx)
    }
    fn run_case(&self, ctx: &Ctx, idx: u64, frag: &mut Frag);
    /// declare floors / assumptions / extra evidence; turn deaths into
    /// violations (default: every death is a violation keyed by class+label)
    fn finish(&self, ctx: &Ctx, report: &mut Report, deaths: &[Death]);
    /// replay a stored case (`case` is the `case` object of a replay file)
    fn replay(&self, _ctx: &Ctx, _case: &Value, _frag: &mut Frag) -> bool {
        false
    }
    fn shards(&self, ctx: &Ctx) -> usize {
        ctx.threads
    }
    /// extra environment for workers
    fn worker_env(&self, _ctx: &Ctx) -> Vec<(String, String)> {
        vec![]
    }
    /// true for cases that are expected to be able to kill the worker: the
    /// observations gathered so far are sent to the parent before they run
    fn risky(&self, _ctx: &Ctx, _idx: u64) -> bool {
        false
    }
}

// sub-case marker: a small shared file the worker updates with plain stores,
// readable by the parent after the worker died.
static SUB_PTR: AtomicPtr<u8> = AtomicPtr::new(std::ptr::null_mut());
const SUB_LEN: usize = 512;

#[cfg(miri)]
fn sub_open(_path: &str) {}

#[cfg(not(miri))]
fn sub_open(path: &str) {
    use std::os::unix::io::AsRawFd;
    let f = match std::fs::OpenOptions::new()
        .read(true)
        .write(true)
        .create(true)
        .truncate(true)
        .open(path)
    {
        Ok(f) => f,
        Err(_) => return,
    };
    if f.set_len(SUB_LEN as u64).is_err() {
        return;
    }
    let p = unsafe {
        libc::mmap(
            std::ptr::null_mut(),
            SUB_LEN,
            libc::PROT_READ | libc::PROT_WRITE,
            libc::MAP_SHARED,
            f.as_raw_fd(),
            0,
        )
    };
    if p != libc::MAP_FAILED {
        SUB_PTR.store(p as *mut u8, Ordering::SeqCst);
    }
}

static SUBSKIP: std::sync::atomic::AtomicU64 = std::sync::atomic::AtomicU64::new(0);

/// As `sub_mark`, with the ordinal of the sub-step inside the current case.
/// Returns false when this sub-step must be skipped because a previous worker
/// already ran (or died in) it.
pub fn sub_mark_n(ordinal: u64, s: &str) -> bool {
    if ordinal < SUBSKIP.load(Ordering::Relaxed) {
        return false;
    }
    sub_mark(s);
    let p = SUB_PTR.load(Ordering::Relaxed);
    if !p.is_null() {
        unsafe { std::ptr::copy_nonoverlapping(ordinal.to_le_bytes().as_ptr(), p.add(SUB_LEN - 8), 8) };
    }
    true
}

static IS_WORKER: std::sync::atomic::AtomicBool = std::sync::atomic::AtomicBool::new(false);

/// A case whose later sub-steps may kill the worker must not lose what its earlier
/// sub-steps observed (the restarted worker skips those). Called between sub-steps:
/// when the fragment holds a violation it is sent to the supervisor at once and
/// emptied (so it is not counted twice when the case ends normally).
pub fn checkpoint_violations(frag: &mut Frag) {
    if frag.violations.is_empty() || !IS_WORKER.load(Ordering::Relaxed) {
        return;
    }
    WorkerIo::new().frag(frag);
    *frag = Frag::new();
}

/// ordinal of the sub-step in flight (u64::MAX: none / no shared marker)
pub fn current_sub_ordinal() -> u64 {
    let p = SUB_PTR.load(Ordering::Relaxed);
    if p.is_null() {
        return u64::MAX;
    }
    let mut a = [0u8; 8];
    unsafe { std::ptr::copy_nonoverlapping(p.add(SUB_LEN - 8), a.as_mut_ptr(), 8) };
    u64::from_le_bytes(a)
}

fn sub_clear_ordinal() {
    let p = SUB_PTR.load(Ordering::Relaxed);
    if !p.is_null() {
        unsafe { std::ptr::copy_nonoverlapping(u64::MAX.to_le_bytes().as_ptr(), p.add(SUB_LEN - 8), 8) };
    }
}

/// Record what the worker is about to execute inside the current case (cheap:
/// a memcpy into a shared mapping). Read back by the parent if the worker dies.
pub fn sub_mark(s: &str) {
    let p = SUB_PTR.load(Ordering::Relaxed);
    if p.is_null() {
        return;
    }
    let b = s.as_bytes();
    let n = b.len().min(SUB_LEN - 2 - 8);
    unsafe {
        std::ptr::copy_nonoverlapping(b.as_ptr(), p.add(2), n);
        *(p as *mut u16) = n as u16;
    }
}

fn sub_read(path: &std::path::Path) -> String {
    match std::fs::read(path) {
        Ok(b) if b.len() >= 2 => {
            let n = u16::from_le_bytes([b[0], b[1]]) as usize;
            String::from_utf8_lossy(&b[2..(2 + n).min(b.len())]).to_string()
        }
        _ => String::new(),
    }
}

pub fn run_worker_loop(check: &dyn Check, ctx: &Ctx, wa: &WorkerArgs) {
    if let Ok(p) = std::env::var("VERIF_SUBFILE") {
        sub_open(&p);
    }
    let mut io = WorkerIo::new();
    IS_WORKER.store(true, Ordering::Relaxed);
    let mut n = check.ncases(ctx);
    // VERIF_MAX_CASES caps the workload (slow interpreters: Miri, valgrind)
    if let Some(m) = std::env::var("VERIF_MAX_CASES").ok().and_then(|s| s.parse::<u64>().ok()) {
        n = n.min(m);
    }
    let mut frag = Frag::new();
    let mut since = 0u64;
    let mut idx = wa.shard as u64;
    // first index >= from belonging to this shard
    if idx < wa.from {
        let ns = wa.nshards as u64;
        idx += (wa.from - idx).div_ceil(ns) * ns;
    }
    let mut last_flush = std::time::Instant::now();
    SUBSKIP.store(wa.subskip, Ordering::Relaxed);
    while idx < n {
        if check.risky(ctx, idx) && (since > 0 || frag.evaluations > 0) {
            io.frag(&frag);
            frag = Frag::new();
            since = 0;
        }
        io.begin(idx, &check.label(ctx, idx));
        sub_mark("");
        sub_clear_ordinal();
        check.run_case(ctx, idx, &mut frag);
        SUBSKIP.store(0, Ordering::Relaxed);
        io.end(idx);
        since += 1;
        if since >= 2000 || last_flush.elapsed().as_millis() > 1500 || !frag.violations.is_empty()
        {
            io.frag(&frag);
            frag = Frag::new();
            since = 0;
            last_flush = std::time::Instant::now();
        }
        idx += wa.nshards as u64;
    }
    io.frag(&frag);
    io.done();
}

/// Entry point shared by all check binaries.
/// argv: <check-id> [--replay PATH] | worker flags (internal)
pub fn main_with(checks: &[&dyn Check]) -> i32 {
    let args: Vec<String> = std::env::args().collect();
    let ctx = Ctx::from_env();
    let id = match args.get(1) {
        Some(s) => s.clone(),
        None => {
            eprintln!("usage: {} <check-id> [--replay PATH]", args[0]);
            return 2;
        }
    };
    let check = match checks.iter().find(|c| c.id().eq_ignore_ascii_case(&id)) {
        Some(c) => *c,
        None => {
            eprintln!("unknown check {}", id);
            return 2;
        }
    };
    let wa = worker_args(&args);
    if wa.is_worker {
        run_worker_loop(check, &ctx, &wa);
        return 0;
    }
    let property = check.id().split('-').next().unwrap_or(check.id()).to_uppercase();
    if let Some(i) = args.iter().position(|a| a == "--replay") {
        let path = args.get(i + 1).cloned().unwrap_or_default();
        let body = std::fs::read_to_string(&path).unwrap_or_default();
        let j: Value = serde_json::from_str(&body).unwrap_or(Value::Null);
        let mut frag = Frag::new();
        let ok = check.replay(&ctx, &j["case"], &mut frag);
        if !ok {
            println!("replay not supported for this case");
            return 2;
        }
        if frag.violations.is_empty() {
            println!("REPLAY property={} no violation reproduced", property);
            return 0;
        }
        for v in frag.violations.values() {
            println!(
                "VIOLATION property={} replay={} key={} :: {}",
                property, path, v.key, v.what
            );
        }
        return 1;
    }

    let exe = std::env::current_exe().expect("current_exe");
    let shards = check.shards(&ctx).max(1);
    let subdir = ctx.root.join("work").join("tmp");
    let _ = std::fs::create_dir_all(&subdir);
    let mut envs = check.worker_env(&ctx);
    // one sub-marker file per shard is created by run.rs via env template
    envs.push((
        "VERIF_SUBFILE_DIR".into(),
        subdir.to_string_lossy().to_string(),
    ));
    let (frag, deaths) = supervise(
        &ctx,
        &exe,
        &[id.clone()],
        shards,
        ctx.threads,
        5000,
        &envs,
    );
    for s in 0..shards {
        let _ = std::fs::remove_file(subdir.join(format!("sub-{}-{}", std::process::id(), s)));
    }
    let mut report = Report::new(&ctx, &property, check.level(), &check.rule());
    report.frag = frag;
    check.finish(&ctx, &mut report, &deaths);
    if !deaths.is_empty() {
        report.extra.insert(
            "worker_deaths".into(),
            json!(deaths.iter().take(20).map(death_json).collect::<Vec<_>>()),
        );
    }
    if let Ok(p) = std::env::var("VERIF_FRAG_OUT") {
        report.dump_part(std::path::Path::new(&p));
        return 0;
    }
    report.finish()
}

/// Default treatment of worker deaths: each is a violation keyed by its class
/// and the leading token of the label (which names the configuration).
pub fn deaths_as_violations(report: &mut Report, deaths: &[Death]) {
    for d in deaths {
        let cfg = d.label.split_whitespace().next().unwrap_or("");
        let key = format!("death|{}|{}", d.class(), cfg);
        report.frag.violation(
            &key,
            &format!("worker process died ({}, {}) while running {}", d.class(), d.status, d.label),
            death_json(d),
        );
    }
}
