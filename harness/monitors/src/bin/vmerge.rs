//! vmerge <PROPERTY> <part.json>... : merge the partial reports written by
//! several check binaries (VERIF_FRAG_OUT) into one verdict + evidence file.
use monitors::evidence::{Ctx, Report};

fn main() {
    let args: Vec<String> = std::env::args().collect();
    if args.len() < 3 {
        eprintln!("usage: vmerge <PROPERTY> <part.json>...");
        std::process::exit(2);
    }
    let ctx = Ctx::from_env();
    let mut report = Report::new(&ctx, &args[1], "exploration", "");
    let mut n = 0;
    for p in &args[2..] {
        match std::fs::read_to_string(p).ok().and_then(|s| serde_json::from_str::<serde_json::Value>(&s).ok()) {
            Some(j) => {
                if n == 0 {
                    if let Some(l) = j["level"].as_str() {
                        report.level = l.to_string();
                    }
                }
                report.merge_part(&j);
                n += 1;
            }
            None => report.frag.inconclusive(&format!("part {} missing or unreadable (a contributing check binary did not finish)", p)),
        }
    }
    if let Ok(s) = std::env::var("VERIF_START_EPOCH_MS") {
        if let Ok(ms) = s.parse::<u128>() {
            let now = std::time::SystemTime::now().duration_since(std::time::UNIX_EPOCH).map(|d| d.as_millis()).unwrap_or(ms);
            report.extra.insert("wall_s_including_builds".into(), serde_json::json!((now.saturating_sub(ms)) as f64 / 1000.0));
        }
    }
    std::process::exit(report.finish());
}
