//! Builder-level checks: C14 (every IDL of the grammar generates Rust that
//! compiles) and C17 (code generation is deterministic). pilota-build always
//! runs as a child process (`pbuild`); its exit status, stderr and output
//! files are the observations.

use std::collections::BTreeMap;
use std::path::{Path, PathBuf};
use std::process::Command;
use std::sync::Mutex;

use monitors::evidence::{Ctx, Report};
use refmodel::rng::{Rng, fnv1a};
use refmodel::schema::{GenProfile, Schema, apply_hostile_names, generate};
use serde_json::{Value, json};

fn write_if_changed(p: &Path, content: &str) {
    if std::fs::read_to_string(p).ok().as_deref() == Some(content) {
        return;
    }
    if let Some(d) = p.parent() {
        let _ = std::fs::create_dir_all(d);
    }
    std::fs::write(p, content).expect("write");
}

#[derive(Clone, Debug)]
struct Cfg {
    split: bool,
    keep: bool,
    change_case: bool,
    ignore_unused: bool,
}

impl Cfg {
    fn all() -> Vec<Cfg> {
        let mut v = vec![];
        for split in [false, true] {
            for keep in [false, true] {
                for change_case in [true, false] {
                    for ignore_unused in [false, true] {
                        v.push(Cfg { split, keep, change_case, ignore_unused });
                    }
                }
            }
        }
        v
    }
    fn name(&self) -> String {
        format!(
            "{}{}{}{}",
            if self.split { "split" } else { "single" },
            if self.keep { "+keep" } else { "" },
            if self.change_case { "" } else { "+nocase" },
            if self.ignore_unused { "+onlyused" } else { "" }
        )
    }
    fn args(&self, keep_files: &[PathBuf]) -> Vec<String> {
        let mut a = vec![];
        if self.split {
            a.push("--split".to_string());
        }
        if self.keep {
            a.push("--keep".to_string());
            for f in keep_files {
                a.push("--keep-also".to_string());
                a.push(f.display().to_string());
            }
        }
        if !self.change_case {
            a.push("--no-change-case".to_string());
        }
        if self.ignore_unused {
            a.push("--ignore-unused".to_string());
        }
        a
    }
}

fn msg_class(s: &str) -> String {
    // collapse identifiers in backticks / quotes and numbers
    let mut out = String::new();
    let mut in_tick = false;
    let mut last_digit = false;
    for c in s.chars().take(160) {
        if c == '`' {
            in_tick = !in_tick;
            if in_tick {
                out.push_str("`_`");
            }
            continue;
        }
        if in_tick {
            continue;
        }
        if c.is_ascii_digit() {
            if !last_digit {
                out.push('N');
            }
            last_digit = true;
        } else {
            last_digit = false;
            out.push(if c.is_whitespace() { '_' } else { c });
        }
    }
    out
}

struct Doc {
    name: String,
    schema: Schema,
    dir: PathBuf,
    /// directed documents: every observation on them is reported under this key
    collapse: Option<&'static str>,
    raw_idl: Option<&'static str>,
    /// protobuf document (single file c0.proto) instead of thrift
    proto: Option<refmodel::pb::PSchema>,
}

/// Seed-independent directed documents for productions that are known to fail
/// (each one is a recorded finding; the random profile does not draw them).
const DIRECTED: [(&str, &str, &str); 8] = [
    // documents with an empty key are expected to build and type-check: shapes that a
    // random document only contains by chance, present in every run by construction
    (
        "double_keys",
        "",
        "struct D {\n  1: set<double> a = [1, 2.5],\n  2: map<double, string> b = {1: \"x\", 2.5: \"y\"},\n  3: list<double> c = [1, 2],\n  4: optional map<double, list<double>> d = {3: [4]},\n  5: double e = 7,\n  6: set<list<double>> f,\n  7: map<list<double>, i32> g,\n  8: optional set<list<list<double>>> h,\n  9: map<set<list<double>>, string> i,\n  10: LD j,\n  11: map<set<i32>, list<LD>> k,\n  12: set<map<string, double>> l,\n}\ntypedef set<list<double>> LD\nconst set<double> CS = [1, 2]\nconst map<double, i32> CM = {1: 2}\nservice DK {\n  set<list<double>> m(1: map<list<double>, double> a, 2: LD b),\n}\n",
    ),
    (
        "boxed_literal",
        "",
        "struct N {\n  1: optional N next,\n  2: i32 v,\n  3: list<N> kids,\n}\nstruct H {\n  1: N head = {\"next\": {\"v\": 2, \"next\": {\"v\": 3}}, \"v\": 1},\n  2: optional N tail = {\"next\": {\"v\": 5}},\n  3: required N third = {\"v\": 6, \"kids\": [{\"v\": 7}]},\n}\n",
    ),
    (
        "triple_collision",
        "",
        "typedef i16 aB\nstruct AB {\n  1: i32 x,\n}\nstruct Ab {\n  1: AB y,\n  2: aB z,\n}\nenum fooBar {\n  A = 1,\n}\nstruct FooBar {\n  1: fooBar f,\n}\nstruct foo_bar {\n  1: FooBar g,\n  2: Foo_Bar h,\n}\ntypedef string Foo_Bar\nconst i32 getURL = 1\nconst i32 get_url = 2\nconst i32 GetUrl = 3\nconst i32 GET_URL = 4\nservice Svc {\n  AB getUrl(1: Ab get_url, 2: aB GetUrl),\n  void get_url(1: foo_bar a),\n  void GetURL(),\n}\n",
    ),
    (
        "annotated_defaults",
        "",
        "const string CS = \"v\"\nstruct S {\n  1: string a = CS (pilota.rust_type = \"string\"),\n  2: optional string b = \"lit\" (pilota.rust_type = \"string\"),\n  3: binary c = CS,\n  4: binary d = CS (pilota.rust_type = \"vec\"),\n  5: binary e = \"0123\" (pilota.rust_type = \"vec\"),\n  6: optional binary f = \"xy\",\n  7: string g = CS,\n  8: required string h = CS (pilota.rust_type = \"string\"),\n}\n",
    ),
    (
        "typedef_defaults",
        "",
        "const i32 CI = 5\nconst string CSV = \"v\"\nenum E {\n  A = 1,\n  B = 2,\n}\ntypedef i32 T1\ntypedef T1 T2\ntypedef string TS\ntypedef E TE\ntypedef list<T2> TL\ntypedef bool TB\nstruct S {\n  1: T1 a = CI,\n  2: optional T2 b = CI,\n  3: required T2 c = 9,\n  4: TS d = CSV,\n  5: TE e = E.B,\n  6: TL f = [1, CI],\n  7: TB g = true,\n  8: optional TB h = 1,\n  9: TE i = 2,\n}\nunion U {\n  1: TB flag,\n  2: T2 n,\n}\n",
    ),
    (
        "prelude",
        "c14|thrift|idl-name-shadows-unqualified-prelude-item",
        "struct Send { 1: i32 a }\nstruct Sync { 1: optional Send s }\nstruct Some { 1: string x }\nstruct None { }\nstruct Ok { 1: list<Some> l }\nstruct Err { 1: map<string, None> m }\nexception X { 1: string m }\nconst i32 Sized = 1\nservice S { Ok m(1: Err e) throws (1: X x) }\n",
    ),
    (
        "typedef_set_key",
        "c14|thrift|typedef-of-set-or-map-used-as-set-element-or-map-key",
        "typedef set<i32> TS\ntypedef map<string, i32> TM\nstruct K {\n  1: map<TS, i32> a,\n  2: set<TS> b,\n  3: optional set<TM> c,\n}\n",
    ),
    (
        "recursive_union",
        "c14|thrift|recursive-union-not-boxed",
        "struct A { 1: optional B b }\nstruct B { 1: optional A a, 2: list<B> l, 3: map<string, A> m, 4: required A ra }\nunion V { 1: list<V> vs, 2: W w }\nunion W { 1: V v, 2: string s }\nunion U { 1: U u, 2: i32 x }\n",
    ),
];

fn make_directed(root: &Path, k: usize) -> Doc {
    let (name, key, idl) = DIRECTED[k];
    let dir = root.join("work").join("c14").join(format!("directed_{}", name));
    write_if_changed(&dir.join("idl").join("c0.thrift"), idl);
    let mut schema = Schema::default();
    schema.files.push(refmodel::schema::FileInfo { stem: "c0".into(), namespace: None, includes: vec![] });
    Doc { name: format!("directed_{}", name), schema, dir, collapse: if key.is_empty() { None } else { Some(key) }, raw_idl: Some(idl), proto: None }
}

fn make_doc(root: &Path, area: &str, name: &str, seed: u64, profile: &str, hostile: bool) -> Doc {
    let mut schema = generate(seed, &GenProfile::named(profile));
    if hostile {
        apply_hostile_names(&mut schema, seed);
    }
    let dir = root.join("work").join(area).join(name);
    for (fi, f) in schema.files.iter().enumerate() {
        write_if_changed(&dir.join("idl").join(format!("{}.thrift", f.stem)), &schema.render_file(fi));
    }
    Doc { name: name.to_string(), schema, dir, collapse: None, raw_idl: None, proto: None }
}

fn make_proto_doc(root: &Path, area: &str, name: &str, seed: u64, proto3: bool) -> Doc {
    make_proto_doc_named(root, area, name, seed, proto3, false)
}

fn make_proto_doc_named(root: &Path, area: &str, name: &str, seed: u64, proto3: bool, hostile: bool) -> Doc {
    let mut ps = refmodel::pb::generate(seed, proto3, 5);
    // (VERIF_PLAIN_PROTO=1: diagnosis aid, same documents with plain names)
    if hostile && std::env::var("VERIF_PLAIN_PROTO").is_err() {
        refmodel::pb::apply_hostile_names(&mut ps, seed);
    }
    let dir = root.join("work").join(area).join(name);
    write_if_changed(&dir.join("idl").join("c0.proto"), &ps.render());
    let mut schema = Schema::default();
    schema.files.push(refmodel::schema::FileInfo { stem: "c0".into(), namespace: None, includes: vec![] });
    Doc { name: name.to_string(), schema, dir, collapse: None, raw_idl: None, proto: Some(ps) }
}

const DIRECTED_PROTO: [(&str, &str, &str); 5] = [
    // several files ("//--- <name>" starts the next one): imports whose packages are prefixes
    // of one another (lib, lib.ext, lib.ext.deep), referred to by partially and fully
    // qualified names, the shorter package imported first
    (
        "import_prefix_packages",
        "",
        "syntax = \"proto3\";\npackage app;\nimport \"base.proto\";\nimport \"base_ext.proto\";\nimport \"base_deep.proto\";\nmessage Order {\n  lib.Base b = 1;\n  lib.ext.Tag t = 2;\n  repeated lib.ext.Tag.Kind ks = 3;\n  .lib.ext.deep.Leaf leaf = 4;\n  map<string, lib.ext.Tag> m = 5;\n  oneof o {\n    lib.ext.deep.Leaf ol = 6;\n    lib.Base ob = 7;\n  }\n}\n//--- base.proto\nsyntax = \"proto3\";\npackage lib;\nmessage Base {\n  int32 x = 1;\n}\n//--- base_ext.proto\nsyntax = \"proto3\";\npackage lib.ext;\nimport \"base.proto\";\nmessage Tag {\n  enum Kind {\n    K0 = 0;\n    K1 = 1;\n  }\n  Kind k = 1;\n  lib.Base base = 2;\n}\n//--- base_deep.proto\nsyntax = \"proto3\";\npackage lib.ext.deep;\nimport \"base_ext.proto\";\nmessage Leaf {\n  string s = 1;\n  lib.ext.Tag tag = 2;\n}\n",
    ),
    (
        "no_package",
        "",
        "syntax = \"proto3\";\nmessage A {\n  message B {\n    int32 x = 1;\n    enum K {\n      K0 = 0;\n      K1 = 1;\n    }\n    K k = 2;\n  }\n  B b = 1;\n  repeated B bs = 2;\n  map<string, B> m = 3;\n  oneof o {\n    B ob = 4;\n    string os = 5;\n  }\n}\nmessage C {\n  A a = 1;\n  A.B ab = 2;\n  A.B.K k = 3;\n}\n",
    ),
    (
        "nocase_snake_message_with_nested",
        "c14|proto|nocase-message-name-equals-its-module-name",
        "syntax = \"proto3\";\npackage p0;\nmessage outer {\n  message inner {\n    int32 x = 1;\n  }\n  inner i = 1;\n}\nmessage User {\n  outer o = 1;\n  outer.inner oi = 2;\n}\n",
    ),
    (
        "case_colliding_message_and_module",
        "c14|proto|message-spelling-equals-module-of-a-case-colliding-message",
        "syntax = \"proto3\";\npackage p0;\nmessage ID {\n  message Inner {\n    int32 x = 1;\n  }\n  Inner i = 1;\n}\nmessage id {\n  ID other = 1;\n  ID.Inner oi = 2;\n}\n",
    ),
    (
    "oneof_recursion",
    "c14|proto|message-recursive-through-oneof",
    "syntax = \"proto3\";\npackage p0;\nmessage Node {\n  oneof kind {\n    int32 leaf = 2;\n    Node child = 3;\n  }\n}\nmessage Tree {\n  Node root = 1;\n}\n",
    ),
];

fn make_directed_proto(root: &Path, k: usize) -> Doc {
    let (name, key, idl) = DIRECTED_PROTO[k];
    let dir = root.join("work").join("c14").join(format!("directed_{}", name));
    let mut parts = idl.split("\n//--- ");
    write_if_changed(&dir.join("idl").join("c0.proto"), &format!("{}\n", parts.next().unwrap_or("").trim_end()));
    for part in parts {
        if let Some((fname, body)) = part.split_once('\n') {
            write_if_changed(&dir.join("idl").join(fname.trim()), &format!("{}\n", body.trim_end()));
        }
    }
    let mut schema = Schema::default();
    schema.files.push(refmodel::schema::FileInfo { stem: "c0".into(), namespace: None, includes: vec![] });
    // a marker schema so that run_pbuild takes the protobuf path
    let ps = refmodel::pb::PSchema { proto3: true, package: None, msgs: vec![], enums: vec![], services: vec![] };
    Doc { name: format!("directed_{}", name), schema, dir, collapse: if key.is_empty() { None } else { Some(key) }, raw_idl: Some(idl), proto: Some(ps) }
}

struct BuildOut {
    ok: bool,
    status: String,
    stderr: String,
}

fn run_pbuild(root: &Path, doc: &Doc, cfg: &Cfg, out_file: &Path, envs: &[(String, String)]) -> BuildOut {
    let idl = doc.dir.join("idl");
    let keep_files: Vec<PathBuf> = doc.schema.files.iter().skip(1).map(|f| idl.join(format!("{}.thrift", f.stem))).collect();
    if let Some(d) = out_file.parent() {
        let _ = std::fs::remove_dir_all(d);
        let _ = std::fs::create_dir_all(d);
    }
    let mut cmd = Command::new(root.join("target/debug/pbuild"));
    if doc.proto.is_some() {
        let mut a = vec![];
        if cfg.split {
            a.push("--split".to_string());
        }
        if !cfg.change_case {
            a.push("--no-change-case".to_string());
        }
        if cfg.ignore_unused {
            a.push("--ignore-unused".to_string());
        }
        cmd.arg("--lang").arg("proto").arg("--out").arg(out_file).arg("--include").arg(&idl).args(a).arg(idl.join("c0.proto")).env("RUST_BACKTRACE", "0");
    } else {
        cmd.arg("--lang").arg("thrift").arg("--out").arg(out_file).args(cfg.args(&keep_files)).arg(idl.join("c0.thrift")).env("RUST_BACKTRACE", "0");
    }
    for (k, v) in envs {
        cmd.env(k, v);
    }
    match cmd.output() {
        Ok(o) => {
            use std::os::unix::process::ExitStatusExt;
            let status = match (o.status.code(), o.status.signal()) {
                (Some(c), _) => format!("exit{}", c),
                (_, Some(s)) => format!("signal{}", s),
                _ => "unknown".into(),
            };
            BuildOut { ok: o.status.success(), status, stderr: String::from_utf8_lossy(&o.stderr).to_string() }
        }
        Err(e) => BuildOut { ok: false, status: format!("spawn-error:{}", e), stderr: String::new() },
    }
}

fn idl_json(doc: &Doc) -> Value {
    let mut m = serde_json::Map::new();
    if let Some(t) = doc.raw_idl {
        m.insert(if doc.proto.is_some() { "c0.proto".into() } else { "c0.thrift".into() }, json!(t));
        return Value::Object(m);
    }
    if let Some(ps) = &doc.proto {
        m.insert("c0.proto".into(), json!(ps.render()));
        return Value::Object(m);
    }
    for (fi, f) in doc.schema.files.iter().enumerate() {
        m.insert(format!("{}.thrift", f.stem), json!(doc.schema.render_file(fi)));
    }
    Value::Object(m)
}

// ---------------------------------------------------------------------------
// C14

fn check_batch(ctx: &Ctx, root: &Path, batch_name: &str, mods: &[(usize, usize, PathBuf)], docs: &[Doc], cfgs: &[Cfg], report: &mut Report) {
    let batch = root.join("work").join("cases").join(batch_name);
    // one rustc process per crate: a large batch is split into member crates of one
    // workspace so that `cargo check` uses all cores (documents stay whole: a resolution
    // error in one document only hides the type errors of its own shard)
    // (twice as many shards as cores, half as many rustc processes at a time: sixteen rustc
    // processes over 160 generated modules each were killed for memory at the thorough tier)
    let nshards = if mods.len() > 64 { (2 * ctx.threads).max(1) } else { 1 };
    if nshards == 1 {
        let _ = std::fs::remove_dir_all(batch.join("shards"));
        let mut main = String::from("#![allow(warnings)]\n");
        for (d, c, out) in mods {
            main.push_str(&format!("mod d{}_c{} {{\n    include!(\"{}\");\n}}\n", d, c, out.display()));
        }
        main.push_str("fn main() {}\n");
        write_if_changed(&batch.join("src/main.rs"), &main);
        write_if_changed(&batch.join("Cargo.toml"), &format!("[package]\nname = \"{}\"\nedition = \"2024\"\nversion = \"0.0.0\"\n\n[dependencies]\npilota = {{ path = \"/repo/pilota\" }}\n\n[workspace]\n\n[profile.dev]\nincremental = false\n", batch_name));
    } else {
        let _ = std::fs::remove_dir_all(batch.join("src"));
        let mut members = vec![];
        for k in 0..nshards {
            let mut main = String::from("#![allow(warnings)]\n");
            let mut any = false;
            for (d, c, out) in mods {
                if *d % nshards == k {
                    main.push_str(&format!("mod d{}_c{} {{\n    include!(\"{}\");\n}}\n", d, c, out.display()));
                    any = true;
                }
            }
            if !any {
                continue;
            }
            main.push_str("fn main() {}\n");
            let dir = batch.join("shards").join(format!("s{}", k));
            write_if_changed(&dir.join("src/main.rs"), &main);
            write_if_changed(&dir.join("Cargo.toml"), &format!("[package]\nname = \"{}_s{}\"\nedition = \"2024\"\nversion = \"0.0.0\"\n\n[dependencies]\npilota = {{ path = \"/repo/pilota\" }}\n", batch_name, k));
            members.push(format!("\"shards/s{}\"", k));
        }
        write_if_changed(&batch.join("Cargo.toml"), &format!("[workspace]\nresolver = \"3\"\nmembers = [{}]\n\n[profile.dev]\nincremental = false\n", members.join(", ")));
    }
    write_if_changed(&batch.join(".cargo/config.toml"), &format!("[net]\noffline = true\n\n[build]\ntarget-dir = \"{}/target\"\nrustflags = [\"--cfg\", \"pilota_verif\"]\n", root.display()));
    if !batch.join("Cargo.lock").exists() {
        let _ = std::fs::copy(root.join("harness/Cargo.lock"), batch.join("Cargo.lock"));
    }
    // --keep-going: a member crate that fails does not stop the others
    let jobs = if nshards > 1 { (ctx.threads / 2).max(4) } else { ctx.threads };
    let mut args = vec!["check".to_string(), "--offline".into(), "--message-format=short".into(), "-j".into(), jobs.to_string()];
    if nshards > 1 {
        args.push("--workspace".into());
        args.push("--keep-going".into());
    }
    let out = Command::new("cargo").current_dir(&batch).args(&args).output();
    match out {
        Err(e) => report.frag.inconclusive(&format!("cannot run cargo check: {}", e)),
        Ok(o) => {
            let err = String::from_utf8_lossy(&o.stderr).to_string();
            let mut per_mod: BTreeMap<(usize, usize), Vec<String>> = BTreeMap::new();
            for line in err.lines() {
                if !line.contains(": error") {
                    continue;
                }
                for (d, c, out) in mods {
                    let dir = out.parent().unwrap().display().to_string();
                    if line.starts_with(&dir) {
                        per_mod.entry((*d, *c)).or_default().push(line.to_string());
                        break;
                    }
                }
            }
            if !o.status.success() && per_mod.is_empty() {
                report.frag.inconclusive(&format!("cargo check of {} failed without an attributable diagnostic: {}", batch_name, err.chars().rev().take(600).collect::<String>().chars().rev().collect::<String>()));
            }
            for (d, c, _) in mods {
                match per_mod.get(&(*d, *c)) {
                    None => report.frag.count("rustc.clean"),
                    Some(lines) => {
                        let mut seen = vec![];
                        for l in lines {
                            let rest = l.splitn(4, ':').nth(3).unwrap_or(l).trim();
                            let code = rest.split(']').next().unwrap_or("").replace("error[", "").replace("error", "E????");
                            let msg = rest.split("]: ").nth(1).unwrap_or(rest);
                            let key = format!("c14|{}|rustc|{}|{}", if docs[*d].proto.is_some() { "proto" } else { "thrift" }, code.trim(), msg_class(msg));
                            let key = docs[*d].collapse.map(|k| k.to_string()).unwrap_or(key);
                            if seen.contains(&key) {
                                continue;
                            }
                            seen.push(key.clone());
                            report.frag.violation(
                                &key,
                                &format!("emitted Rust does not type-check for document {} in configuration {}: {}", docs[*d].name, cfgs[*c].name(), rest),
                                json!({"doc": docs[*d].name, "config": cfgs[*c].name(), "config_index": c, "diagnostics": lines.iter().take(8).collect::<Vec<_>>(), "idl": idl_json(&docs[*d])}),
                            );
                        }
                    }
                }
            }
        }
    }
}

fn c14(ctx: &Ctx) -> i32 {
    let root = ctx.root.clone();
    let mut report = Report::new(
        ctx,
        "C14",
        "exploration",
        "program = document of G_thrift with the HOSTILE naming profile (Rust strict/reserved/path keywords, names colliding after case conversion, names of items the emitted code mentions, leading underscores, all caps) covering structs/unions/exceptions/enums/typedefs/consts/services, and documents of G_proto (proto2/proto3, nested messages and enums, oneofs, maps, every scalar type, recursion), containers nested to depth 3, self recursion through optional fields / lists / map values, 1-3 file include graphs, namespaces, defaults, pilota annotations; configuration = {single file, split} x {keep_unknown_fields on/off} x {change_case on/off} x {ignore_unused on/off}. Observation: exit status + stderr of the builder child process, then rustc's diagnostics for the emitted files (cargo check of a crate that include!s every output as its own module, against the pilota runtime of the working tree). distinct = (document feature vector hash, configuration)",
    );
    report.assume("G_proto documents come with plain names and, every other pair, with hostile names that stay valid protobuf (unique per scope, field names unique as JSON names); messages with nested types keep an upper-case letter and message names of one scope stay distinct after case conversion (the two recorded findings of that family have directed documents)");
    // the builder must write below its output directory only: listing of / (a package-less
    // .proto in split mode once wrote /mod.rs) before and after all builder runs
    let root_listing = || -> Vec<(String, u64, i64)> {
        use std::os::unix::fs::MetadataExt;
        let mut v: Vec<(String, u64, i64)> = std::fs::read_dir("/")
            .map(|rd| rd.flatten().filter_map(|e| e.metadata().ok().filter(|m| m.is_file()).map(|m| (e.file_name().to_string_lossy().to_string(), m.len(), m.mtime() * 1_000_000_000 + m.mtime_nsec()))).collect())
            .unwrap_or_default();
        v.sort();
        v
    };
    let root_before = root_listing();
    report.assume("uniqueness of names is kept in Thrift's own terms (exact spelling per scope); collisions after Rust case conversion are intended");
    let ndocs = ctx.scale(6, 120) as usize;
    let cfgs = Cfg::all();
    // documents
    let docs: Vec<Doc> = (0..ndocs)
        .map(|k| {
            let profile = match k % 3 {
                0 => "default",
                1 => "defaults",
                _ => "small",
            };
            // two fixed documents + seed dependent ones
            let seed = if k < 2 { 0xC14_0000 + k as u64 } else { ctx.seed.wrapping_mul(7919).wrapping_add(k as u64) };
            // namespace layout by document index (every layout occurs in every run)
            make_doc(&root, "c14", &format!("d{}", k), seed, &format!("{}@ns{}", profile, [2, 3, 4, 5, 1, 0][(k + k / 6) % 6]), true)
        })
        .collect();
    let mut docs = docs;
    let nproto = ctx.scale(4, 40) as usize;
    for k in 0..nproto {
        let seed = if k < 4 { 0xC14_9000 + k as u64 } else { ctx.seed.wrapping_mul(6007).wrapping_add(k as u64) };
        // every other pair of documents carries hostile names (p2, p3, p6, p7, ...)
        docs.push(make_proto_doc_named(&root, "c14", &format!("p{}", k), seed, k % 2 == 0, k % 4 >= 2));
    }
    let n_random = docs.len();
    for k in 0..DIRECTED.len() {
        docs.push(make_directed(&root, k));
    }
    for k in 0..DIRECTED_PROTO.len() {
        docs.push(make_directed_proto(&root, k));
    }
    let docs = docs;
    let mut features_seen: BTreeMap<String, u64> = BTreeMap::new();
    for d in &docs {
        for f in d.schema.features() {
            *features_seen.entry(f).or_insert(0) += 1;
        }
        if let Some(ps) = &d.proto {
            for f in ps.features() {
                *features_seen.entry(format!("proto.{}", f)).or_insert(0) += 1;
            }
        }
    }
    for (f, n) in &features_seen {
        report.frag.add(&format!("feature.{}", f), *n);
    }
    // (doc, cfg) pairs: quick = 8 configurations per document (rotating), thorough = all 16
    let per_doc = if ctx.thorough() { 16 } else { 8 };
    let mut pairs: Vec<(usize, usize)> = vec![];
    for d in n_random..docs.len() {
        // directed documents: plain single-file and case-conversion-off configurations
        pairs.push((d, 0));
        pairs.push((d, 2));
        if docs[d].collapse.is_none() {
            // expected to build: also keep_unknown_fields, split, split+keep, only-used
            for c in [4, 8, 12, 1] {
                pairs.push((d, c));
            }
        }
    }
    for d in 0..n_random {
        for j in 0..per_doc {
            // quick: even configurations for even documents, odd for odd ones (two
            // documents cover all 16); thorough: all 16 for every document
            pairs.push((d, if ctx.thorough() { j } else { (2 * j + d % 2) % 16 }));
        }
    }
    // run the builder (children in parallel)
    let results: Mutex<Vec<(usize, usize, BuildOut, PathBuf)>> = Mutex::new(vec![]);
    let next = std::sync::atomic::AtomicUsize::new(0);
    std::thread::scope(|s| {
        for _ in 0..ctx.threads {
            s.spawn(|| loop {
                let i = next.fetch_add(1, std::sync::atomic::Ordering::SeqCst);
                if i >= pairs.len() {
                    break;
                }
                let (d, c) = pairs[i];
                let out = docs[d].dir.join(format!("c{}", c)).join("pgen.rs");
                let r = run_pbuild(&root, &docs[d], &cfgs[c], &out, &[]);
                results.lock().unwrap().push((d, c, r, out));
            });
        }
    });
    let root_after = root_listing();
    report.frag.add("files_in_root_dir_watched", root_after.len() as u64);
    if root_after != root_before {
        let changed: Vec<String> = root_after.iter().filter(|x| !root_before.contains(x)).map(|x| format!("/{}", x.0)).collect();
        report.frag.violation(
            "c14|builder-wrote-outside-its-output-directory",
            &format!("files in / created or rewritten while the builders ran: {:?}", changed),
            json!({"changed": changed}),
        );
    }
    let mut results = results.into_inner().unwrap();
    results.sort_by_key(|r| (r.0, r.1));
    let mut mods: Vec<(usize, usize, PathBuf)> = vec![];
    for (d, c, r, out) in &results {
        report.frag.eval();
        report.frag.count(&format!("config.{}", cfgs[*c].name()));
        report.frag.distinct(fnv1a(format!("{}{:?}{}", docs[*d].name, docs[*d].schema.features(), c).as_bytes()));
        if docs[*d].collapse.is_some() {
            report.frag.count("directed_documents_built");
        }
        if r.ok && out.exists() {
            report.frag.count("builder.exit0");
            mods.push((*d, *c, out.clone()));
        } else {
            let panic_line = r.stderr.lines().find(|l| l.contains("panicked at")).unwrap_or("").to_string();
            let msg_line = r.stderr.lines().skip_while(|l| !l.contains("panicked at")).nth(1).unwrap_or("").to_string();
            let site = panic_line.split("panicked at ").nth(1).unwrap_or("").split(':').next().unwrap_or("").trim_start_matches("/repo/").to_string();
            let key = if !panic_line.is_empty() { format!("c14|thrift|builder-panic|{}|{}", site, msg_class(&msg_line)) } else { format!("c14|thrift|builder-{}|{}", r.status, msg_class(r.stderr.lines().last().unwrap_or(""))) };
            let key = if docs[*d].proto.is_some() { key.replace("c14|thrift|", "c14|proto|") } else { key };
            let key = docs[*d].collapse.map(|k| k.to_string()).unwrap_or(key);
            report.frag.violation(
                &key,
                &format!("pilota-build did not terminate normally on document {} in configuration {}: {} {}", docs[*d].name, cfgs[*c].name(), panic_line, msg_line),
                json!({"doc": docs[*d].name, "config": cfgs[*c].name(), "config_index": c, "status": r.status, "stderr_tail": r.stderr.chars().rev().take(1200).collect::<String>().chars().rev().collect::<String>(), "idl": idl_json(&docs[*d])}),
            );
        }
    }
    if report.frag.samples.is_empty() {
        if let Some(d) = docs.first() {
            report.frag.sample(json!({"doc": d.name, "features": d.schema.features(), "c0.thrift": d.schema.render_file(0).chars().take(700).collect::<String>()}));
        }
    }
    // type-check everything the builder produced. Two crates: documents that are known to fail
    // (directed, recorded findings) are kept apart, because rustc stops after name-resolution
    // errors and would never report type errors of the other modules.
    // Every directed document gets a crate of its own for the same reason.
    {
        let main_mods: Vec<(usize, usize, PathBuf)> = mods.iter().filter(|(d, _, _)| docs[*d].collapse.is_none()).cloned().collect();
        if !main_mods.is_empty() {
            check_batch(ctx, &root, "c14batch", &main_mods, &docs, &cfgs, &mut report);
        }
        for d0 in 0..docs.len() {
            if docs[d0].collapse.is_none() {
                continue;
            }
            let m: Vec<(usize, usize, PathBuf)> = mods.iter().filter(|(d, _, _)| *d == d0).cloned().collect();
            if !m.is_empty() {
                check_batch(ctx, &root, &format!("c14batch_{}", docs[d0].name), &m, &docs, &cfgs, &mut report);
            }
        }
    }
    for k in ["struct", "union", "exception", "enum", "typedef", "const", "service", "oneway", "throws", "void-method", "list", "set", "map", "container-nesting-3", "include-2-files", "include-3-files", "namespace-rs", "field-default", "required", "optional", "default-requiredness", "self-recursion-optional-field", "struct-as-map-value", "struct-as-list-elem", "enum-as-field", "typedef-as-field", "union-as-field"] {
        report.floor(&format!("feature.{}", k), 1);
    }
    for c in &cfgs {
        report.floor(&format!("config.{}", c.name()), 1);
    }
    for k in ["proto.proto2", "proto.proto3", "proto.nested-message", "proto.message-singular", "proto.message-repeated", "proto.message-map-value", "proto.sint32-singular", "proto.enum-singular"] {
        report.floor(&format!("feature.{}", k), 1);
    }
    report.finish()
}

// ---------------------------------------------------------------------------
// C17

fn list_files(root: &Path, rel: &Path, out: &mut Vec<PathBuf>) {
    if let Ok(rd) = std::fs::read_dir(root.join(rel)) {
        for e in rd.flatten() {
            let p = rel.join(e.file_name());
            if e.path().is_dir() {
                if e.file_name() == "target" {
                    continue;
                }
                list_files(root, &p, out);
            } else {
                out.push(p);
            }
        }
    }
}

fn snapshot(dir: &Path) -> BTreeMap<String, (u64, usize)> {
    let mut fs = vec![];
    list_files(dir, Path::new(""), &mut fs);
    let mut m = BTreeMap::new();
    for f in fs {
        if let Ok(b) = std::fs::read(dir.join(&f)) {
            m.insert(f.display().to_string(), (fnv1a(&b), b.len()));
        }
    }
    m
}

fn c17(ctx: &Ctx) -> i32 {
    let root = ctx.root.clone();
    let mut report = Report::new(
        ctx,
        "C17",
        "exploration",
        "case = (corpus, output mode, schedule): protobuf corpora (messages with several nested messages/enums/oneofs at two levels) and thrift corpora with many modules (3-file include graphs, namespaces), hostile names that collide after case conversion, constants and services, built R times in FRESH builder processes (fresh hash seeds) with RAYON_NUM_THREADS in {1,2,3,4,6,8,12,16} and other builders running concurrently, in single-file, split and workspace mode, and for the thrift corpora (incl. 'sparse' ones: ~90 definitions, 6 services reaching a part of them) also with ignore_unused(true), the Builder default. Oracle: the map relative path -> (content hash, length) is identical across all runs of a (corpus, mode). distinct = (corpus, mode, thread count)",
    );
    report.assume("protobuf corpora are built in single-file and split mode (workspace mode is exercised with the thrift corpora)");
    report.assume("schedule diversity comes from process repetition, thread-count variation, concurrent load and the jitter hook (cfg pilota_verif: 0-2 ms sleep per module task keyed by seed and module path); it is sampled, not enumerated; the hook's order log gives the number of distinct task completion orders actually observed");
    let runs = ctx.scale(20, 120) as usize;
    let ncorp = ctx.scale(2, 8) as usize;
    let threads = [1usize, 2, 3, 4, 6, 8, 12, 16];
    let mut corpora: Vec<Doc> = (0..ncorp)
        .map(|k| {
            let seed = if k < 2 { 0xC17_0000 + k as u64 } else { ctx.seed.wrapping_mul(104729).wrapping_add(k as u64) };
            // the first corpus has sibling modules BELOW the first path segment by construction
            // (shop.m0.model, shop.m1.model, shop.m2.model); the others draw their layout
            make_doc(&root, "c17", &format!("k{}", k), seed, if k == 0 { "default@ns2" } else { "default" }, k % 2 == 0)
        })
        .collect();
    // protobuf corpora: messages with several nested messages / enums / oneofs at two levels
    for k in 0..ctx.scale(2, 6) as usize {
        let seed = if k < 2 { 0xC17_9000 + k as u64 } else { ctx.seed.wrapping_mul(15485863).wrapping_add(k as u64) };
        corpora.push(make_proto_doc(&root, "c17", &format!("pk{}", k), seed, k % 2 == 0));
    }
    // thrift corpora with many definitions of which the services reach only a part: the
    // builder's default mode (ignore_unused) starts from the services and emits what they use
    for k in 0..ctx.scale(2, 4) as usize {
        let seed = if k < 2 { 0xC17_5000 + k as u64 } else { ctx.seed.wrapping_mul(7919).wrapping_add(k as u64) };
        corpora.push(make_doc(&root, "c17", &format!("sp{}", k), seed, if k == 0 { "sparse@ns2" } else { "sparse" }, k % 2 == 1));
    }
    // one namespace with several hundred items
    for k in 0..ctx.scale(1, 2) as usize {
        corpora.push(make_doc(&root, "c17", &format!("big{}", k), 0xC17_B000 + k as u64, "big1", false));
    }
    // "-used" = ignore_unused(true), the Builder's default
    let modes = ["single", "split", "workspace", "single-used", "split-used"];
    // jobs: (corpus, mode, run)
    let mut jobs = vec![];
    for c in 0..corpora.len() {
        for (m, _) in modes.iter().enumerate() {
            if corpora[c].proto.is_some() && modes[m] != "single" && modes[m] != "split" {
                continue;
            }
            for r in 0..runs {
                jobs.push((c, m, r));
            }
        }
    }
    let snaps: Mutex<BTreeMap<(usize, usize), Vec<(usize, usize, BTreeMap<String, (u64, usize)>, String)>>> = Mutex::new(BTreeMap::new());
    let next = std::sync::atomic::AtomicUsize::new(0);
    let orders: Mutex<BTreeMap<(usize, usize), Vec<u64>>> = Mutex::new(BTreeMap::new());
    let tasks_seen = std::sync::atomic::AtomicUsize::new(0);
    std::thread::scope(|s| {
        for _ in 0..ctx.threads {
            s.spawn(|| loop {
                let i = next.fetch_add(1, std::sync::atomic::Ordering::SeqCst);
                if i >= jobs.len() {
                    break;
                }
                let (c, m, r) = jobs[i];
                let nt = threads[(r + c + m) % threads.len()];
                let outdir = corpora[c].dir.join(format!("{}-r{}", modes[m], r));
                let _ = std::fs::remove_dir_all(&outdir);
                let _ = std::fs::create_dir_all(&outdir);
                let order_log = corpora[c].dir.join(format!("order-{}-r{}.log", modes[m], r));
                let _ = std::fs::remove_file(&order_log);
                let envs = vec![
                    ("RAYON_NUM_THREADS".to_string(), nt.to_string()),
                    // hook (cfg pilota_verif): per-module jitter and task order log
                    ("VERIF_JITTER_SEED".to_string(), format!("{}", ctx.seed.wrapping_mul(31).wrapping_add((r * 7 + m) as u64))),
                    ("VERIF_ORDER_LOG".to_string(), order_log.display().to_string()),
                ];
                let res = if modes[m] == "workspace" {
                    // workspace mode wants a directory with a Cargo.toml and every service file as input
                    let _ = std::fs::write(outdir.join("Cargo.toml"), "");
                    let mut cmd = Command::new(root.join("target/debug/pbuild"));
                    cmd.arg("--lang").arg("thrift").arg("--workspace").arg("--out").arg(&outdir).arg(corpora[c].dir.join("idl/c0.thrift")).env("RUST_BACKTRACE", "0");
                    for (k, v) in &envs {
                        cmd.env(k, v);
                    }
                    match cmd.output() {
                        Ok(o) => BuildOut { ok: o.status.success(), status: format!("{:?}", o.status.code()), stderr: String::from_utf8_lossy(&o.stderr).to_string() },
                        Err(e) => BuildOut { ok: false, status: format!("{}", e), stderr: String::new() },
                    }
                } else {
                    let cfg = Cfg { split: modes[m].starts_with("split"), keep: false, change_case: true, ignore_unused: modes[m].ends_with("-used") };
                    // run_pbuild wipes the parent dir of the output file
                    run_pbuild(&root, &corpora[c], &cfg, &outdir.join("out").join("pgen.rs"), &envs)
                };
                let snap = if res.ok { snapshot(&outdir) } else { BTreeMap::new() };
                let _ = std::fs::remove_dir_all(&outdir);
                let order = std::fs::read_to_string(&order_log).unwrap_or_default();
                let _ = std::fs::remove_file(&order_log);
                let completion: Vec<&str> = order.lines().filter(|l| l.starts_with("E ")).collect();
                orders.lock().unwrap().entry((c, m)).or_default().push(fnv1a(completion.join("|").as_bytes()));
                if !completion.is_empty() {
                    tasks_seen.fetch_add(completion.len(), std::sync::atomic::Ordering::SeqCst);
                }
                snaps.lock().unwrap().entry((c, m)).or_default().push((r, nt, snap, if res.ok { String::new() } else { format!("{} {}", res.status, res.stderr.chars().take(300).collect::<String>()) }));
            });
        }
    });
    let snaps = snaps.into_inner().unwrap();
    let orders = orders.into_inner().unwrap();
    let mut max_distinct_orders = 0u64;
    for ((_c, m), v) in &orders {
        let mut d = v.clone();
        d.sort();
        d.dedup();
        max_distinct_orders = max_distinct_orders.max(d.len() as u64);
        report.frag.add(&format!("distinct_completion_orders.{}", modes[*m]), d.len() as u64);
    }
    report.frag.add("module_tasks_observed_by_hook", tasks_seen.load(std::sync::atomic::Ordering::SeqCst) as u64);
    report.frag.add("max_distinct_completion_orders_of_one_corpus_mode", max_distinct_orders);
    for ((c, m), mut v) in snaps {
        v.sort_by_key(|x| x.0);
        let failed: Vec<&(usize, usize, BTreeMap<String, (u64, usize)>, String)> = v.iter().filter(|x| !x.3.is_empty()).collect();
        if !failed.is_empty() {
            if failed.len() == v.len() {
                // the builder cannot build this corpus in this mode at all: C14's business
                report.frag.masked(&format!("builder-failed-in-{}-mode(C14)", modes[m]));
                report.frag.add(&format!("mode.{}.builder_failed(masked)", modes[m]), 1);
                continue;
            }
            report.frag.violation(&format!("c17|{}|some-runs-fail", modes[m]), &format!("corpus {} mode {}: {} of {} runs failed: {}", corpora[c].name, modes[m], failed.len(), v.len(), failed[0].3), json!({"corpus": corpora[c].name, "mode": modes[m], "idl": idl_json(&corpora[c])}));
        }
        let good: Vec<&(usize, usize, BTreeMap<String, (u64, usize)>, String)> = v.iter().filter(|x| x.3.is_empty()).collect();
        let mut distinct_outputs: Vec<&BTreeMap<String, (u64, usize)>> = vec![];
        for g in &good {
            report.frag.eval();
            report.frag.count(&format!("mode.{}.runs", modes[m]));
            report.frag.count(&format!("threads.{}", g.1));
            report.frag.distinct(fnv1a(format!("{}{}{}", c, m, g.1).as_bytes()));
            if !distinct_outputs.iter().any(|o| **o == g.2) {
                distinct_outputs.push(&g.2);
            }
        }
        report.frag.add(&format!("mode.{}.files_per_run", modes[m]), good.first().map(|g| g.2.len() as u64).unwrap_or(0));
        if distinct_outputs.len() > 1 {
            // describe the first difference
            let a = distinct_outputs[0];
            let b = distinct_outputs[1];
            let mut diff = vec![];
            for (k, va) in a {
                match b.get(k) {
                    None => diff.push(format!("{} only in some runs", k)),
                    Some(vb) if vb != va => diff.push(format!("{} differs ({} vs {} bytes)", k, va.1, vb.1)),
                    _ => {}
                }
            }
            for k in b.keys() {
                if !a.contains_key(k) {
                    diff.push(format!("{} only in some runs", k));
                }
            }
            report.frag.violation(
                &format!("c17|{}|outputs-differ", modes[m]),
                &format!("corpus {} mode {}: {} distinct outputs over {} runs; e.g. {}", corpora[c].name, modes[m], distinct_outputs.len(), good.len(), diff.iter().take(3).cloned().collect::<Vec<_>>().join("; ")),
                json!({"corpus": corpora[c].name, "mode": modes[m], "distinct_outputs": distinct_outputs.len(), "differences": diff.iter().take(10).collect::<Vec<_>>(), "idl": idl_json(&corpora[c])}),
            );
        }
        if report.frag.samples.len() < 3 {
            report.frag.sample(json!({"corpus": corpora[c].name, "mode": modes[m], "runs": good.len(), "files": good.first().map(|g| g.2.len()), "distinct_outputs": distinct_outputs.len()}));
        }
    }
    for m in ["single", "split"] {
        report.floor(&format!("mode.{}.runs", m), 20);
    }
    for t in threads {
        report.floor(&format!("threads.{}", t), 1);
    }
    // if nothing was varied the run says nothing about the schedule quantifier
    report.floor("max_distinct_completion_orders_of_one_corpus_mode", 5);
    report.floor("module_tasks_observed_by_hook", 100);
    report.finish()
}

fn main() {
    let args: Vec<String> = std::env::args().collect();
    let ctx = Ctx::from_env();
    let _ = Rng::new(0);
    let code = match args.get(1).map(|s| s.as_str()) {
        Some("c14") => c14(&ctx),
        Some("c17") => c17(&ctx),
        _ => {
            eprintln!("usage: buildcheck c14|c17");
            2
        }
    };
    std::process::exit(code);
}
