//! genorch: generate IDL corpora, run pilota-build (as a child process) in the
//! builder configurations under test, lay out one case crate per (corpus,
//! configuration) and build them all with one cargo invocation.
//!
//! genorch --tier quick|thorough --seed N [--only-list]
//! stdout: one line per built case binary: `<corpus> <config> <path>`
//! exit 0 ok, 3 = could not build (inconclusive for the caller)

use std::path::{Path, PathBuf};
use std::process::Command;

use refmodel::schema::{GenProfile, generate};

fn write_if_changed(p: &Path, content: &str) {
    if let Ok(old) = std::fs::read_to_string(p) {
        if old == content {
            return;
        }
    }
    if let Some(d) = p.parent() {
        let _ = std::fs::create_dir_all(d);
    }
    std::fs::write(p, content).expect("write");
}

fn list_files(root: &Path, rel: &Path, out: &mut Vec<PathBuf>) {
    if let Ok(rd) = std::fs::read_dir(root.join(rel)) {
        for e in rd.flatten() {
            let p = rel.join(e.file_name());
            if e.path().is_dir() {
                list_files(root, &p, out);
            } else {
                out.push(p);
            }
        }
    }
}

/// make `dst` equal to `src`, rewriting only files whose content differs
fn sync_dir(src: &Path, dst: &Path) {
    let mut new = vec![];
    list_files(src, Path::new(""), &mut new);
    let mut old = vec![];
    list_files(dst, Path::new(""), &mut old);
    for f in &new {
        if let Ok(c) = std::fs::read(src.join(f)) {
            let target = dst.join(f);
            if std::fs::read(&target).ok().as_deref() != Some(&c[..]) {
                if let Some(d) = target.parent() {
                    let _ = std::fs::create_dir_all(d);
                }
                let _ = std::fs::write(&target, &c);
            }
        }
    }
    for f in &old {
        if !new.contains(f) {
            let _ = std::fs::remove_file(dst.join(f));
        }
    }
}

struct Corpus {
    name: String,
    seed: u64,
    /// thrift: generator profile; proto: "proto2" | "proto3"
    profile: String,
    proto: bool,
}

#[allow(clippy::too_many_arguments)]
fn proto_corpus(root: &Path, cases: &Path, pbuild: &Path, c: &Corpus, members: &mut Vec<String>, built: &mut Vec<(String, String, String)>, rejected: &mut Vec<String>) {
    let proto3 = c.profile == "proto3";
    let schema = refmodel::pb::generate(c.seed, proto3, 4);
    let cdir = cases.join(&c.name);
    let idl_dir = cdir.join("idl");
    write_if_changed(&idl_dir.join("c0.proto"), &schema.render());
    let mut reg = String::from("pub fn registry() -> Vec<gencase::pbchecks::PTypeOps> {\n    vec![\n");
    for m in 0..schema.msgs.len() {
        reg.push_str(&format!("        gencase::pbchecks::pops::<crate::{}>({}),\n", schema.rust_path("pgen", "c0", m), m));
    }
    reg.push_str("    ]\n}\n");
    write_if_changed(&cdir.join("registry.rs"), &reg);
    // the fixed quick corpus p3 is additionally built against pilota with pb-encode-default-value
    let configs: Vec<&str> = if c.name == "p3" { vec!["single", "split", "encdef"] } else { vec!["single", "split"] };
    for config in configs {
        let kdir = cdir.join(config);
        let gen_dir = kdir.join("gen");
        let new_dir = kdir.join("gen.new");
        let _ = std::fs::remove_dir_all(&new_dir);
        let _ = std::fs::create_dir_all(&new_dir);
        let _ = std::fs::create_dir_all(&gen_dir);
        let mut cmd = Command::new(pbuild);
        cmd.arg("--lang").arg("proto").arg("--out").arg(new_dir.join("pgen.rs")).arg("--include").arg(&idl_dir);
        if config == "split" {
            cmd.arg("--split");
        }
        cmd.arg(idl_dir.join("c0.proto"));
        match cmd.output() {
            Ok(o) if o.status.success() => {
                sync_dir(&new_dir, &gen_dir);
                let _ = std::fs::remove_dir_all(&new_dir);
            }
            Ok(o) => {
                eprintln!("pbuild failed for {} {}: {}", c.name, config, String::from_utf8_lossy(&o.stderr).chars().take(400).collect::<String>());
                rejected.push(format!("{}/{}", c.name, config));
                continue;
            }
            Err(e) => {
                eprintln!("cannot run pbuild: {}", e);
                std::process::exit(3);
            }
        }
        let pkg = format!("case_{}_{}", c.name, config);
        let feat = if config == "encdef" { ", features = [\"pb-encode-default-value\"]" } else { "" };
        write_if_changed(
            &kdir.join("Cargo.toml"),
            &format!(
                "[package]\nname = \"{}\"\nedition = \"2024\"\nversion = \"0.0.0\"\n\n[dependencies]\npilota = {{ path = \"/repo/pilota\"{} }}\ngencase = {{ path = \"{}/harness/gencase\" }}\nmonitors = {{ path = \"{}/harness/monitors\" }}\n",
                pkg,
                feat,
                root.display(),
                root.display()
            ),
        );
        write_if_changed(
            &kdir.join("src/main.rs"),
            &format!(
                "#![allow(warnings)]\n#[cfg(not(miri))]\n#[global_allocator]\nstatic ALLOC: monitors::alloc::Counting = monitors::alloc::Counting;\n\ninclude!(\"{}\");\ninclude!(\"{}\");\n\nfn main() {{\n    gencase::pbchecks::pmain(registry(), {}, {}, \"{}\", \"{}\");\n}}\n",
                gen_dir.join("pgen.rs").display(),
                cdir.join("registry.rs").display(),
                c.seed,
                proto3,
                config,
                c.name
            ),
        );
        members.push(format!("{}/{}", c.name, config));
        built.push((c.name.clone(), config.to_string(), pkg));
    }
}

fn main() {
    let args: Vec<String> = std::env::args().collect();
    let mut tier = "quick".to_string();
    let mut seed: u64 = 1;
    let mut i = 1;
    while i < args.len() {
        match args[i].as_str() {
            "--tier" => {
                tier = args[i + 1].clone();
                i += 1;
            }
            "--seed" => {
                seed = args[i + 1].parse::<i64>().unwrap_or(1) as u64;
                i += 1;
            }
            _ => {}
        }
        i += 1;
    }
    let root = PathBuf::from(std::env::var("VERIF_ROOT").unwrap_or_else(|_| "/verif".into()));
    let cases = root.join("work").join("cases");
    let pbuild = root.join("target/debug/pbuild");

    // quick: two fixed corpora (values vary with VERIF_SEED, programs do not, so
    // the every-change check does not recompile generated code for every seed);
    // thorough: + corpora derived from the seed
    let mut corpora = vec![
        Corpus { name: "q0".into(), seed: 0x51, profile: "default@ns2".into(), proto: false },
        Corpus { name: "qd".into(), seed: 0x52, profile: "defaults@ns3".into(), proto: false },
        Corpus { name: "p3".into(), seed: 0x53, profile: "proto3".into(), proto: true },
        Corpus { name: "p2".into(), seed: 0x54, profile: "proto2".into(), proto: true },
    ];
    if tier == "thorough" {
        let n: u64 = std::env::var("VERIF_CORPORA").ok().and_then(|s| s.parse().ok()).unwrap_or(10);
        for k in 0..n {
            let profile = match k % 4 {
                0 => "default",
                1 => "defaults",
                2 => "small",
                _ => "default",
            };
            corpora.push(Corpus { name: format!("t{}_{}", seed % 1000, k), seed: seed.wrapping_mul(1000).wrapping_add(k), profile: profile.into(), proto: false });
        }
        let np: u64 = std::env::var("VERIF_PROTO_CORPORA").ok().and_then(|s| s.parse().ok()).unwrap_or(6);
        for k in 0..np {
            corpora.push(Corpus { name: format!("u{}_{}", seed % 1000, k), seed: seed.wrapping_mul(2000).wrapping_add(k), profile: if k % 2 == 0 { "proto3" } else { "proto2" }.into(), proto: true });
        }
    }

    let mut members: Vec<String> = vec![];
    let mut built: Vec<(String, String, String)> = vec![];
    let mut rejected: Vec<String> = vec![];
    // diagnostics of an earlier run
    if let Ok(rd) = std::fs::read_dir(&cases) {
        for e in rd.flatten() {
            if e.file_name().to_string_lossy().ends_with(".build-error.txt") {
                let _ = std::fs::remove_file(e.path());
            }
        }
    }
    for c in &corpora {
        if c.proto {
            proto_corpus(&root, &cases, &pbuild, c, &mut members, &mut built, &mut rejected);
            continue;
        }
        let schema = generate(c.seed, &GenProfile::named(&c.profile));
        let cdir = cases.join(&c.name);
        let idl_dir = cdir.join("idl");
        for (fi, f) in schema.files.iter().enumerate() {
            write_if_changed(&idl_dir.join(format!("{}.thrift", f.stem)), &schema.render_file(fi));
        }
        // registry
        let mut reg = String::from("pub fn registry() -> Vec<gencase::TypeOps> {\n    vec![\n");
        for (ti, t) in schema.targets("pgen").iter().enumerate() {
            reg.push_str(&format!("        gencase::ops::<crate::{}>({}),\n", t.rust_path, ti));
        }
        reg.push_str("    ]\n}\n");
        write_if_changed(&cdir.join("registry.rs"), &reg);
        for config in ["single", "split", "keep"] {
            let kdir = cdir.join(config);
            let gen_dir = kdir.join("gen");
            let _ = std::fs::create_dir_all(&gen_dir);
            // run the builder as a child; its exit status is an observation. It writes
            // into a scratch directory; the tree is then synced into gen/ file by file
            // and only changed files are rewritten, so an unchanged /repo means no
            // recompilation of the case crates.
            let new_dir = kdir.join("gen.new");
            let _ = std::fs::remove_dir_all(&new_dir);
            let _ = std::fs::create_dir_all(&new_dir);
            let tmp_sub = gen_dir.join("pgen.rs");
            let mut cmd = Command::new(&pbuild);
            cmd.arg("--lang").arg("thrift").arg("--out").arg(new_dir.join("pgen.rs"));
            if config == "split" {
                cmd.arg("--split");
            }
            if config == "keep" {
                cmd.arg("--keep");
                // chained corpora (odd seed) name the entry file only: retention has to
                // reach the other files through the include graph
                for f in schema.files.iter().skip(1).filter(|_| c.seed & 1 == 0) {
                    cmd.arg("--keep-also").arg(idl_dir.join(format!("{}.thrift", f.stem)));
                }
            }
            cmd.arg(idl_dir.join("c0.thrift"));
            let out = cmd.output();
            match out {
                Ok(o) if o.status.success() => {
                    sync_dir(&new_dir, &gen_dir);
                    let _ = std::fs::remove_dir_all(&new_dir);
                }
                Ok(o) => {
                    eprintln!("pbuild failed for {} {}: {}", c.name, config, String::from_utf8_lossy(&o.stderr).chars().take(400).collect::<String>());
                    rejected.push(format!("{}/{}", c.name, config));
                    continue;
                }
                Err(e) => {
                    eprintln!("cannot run pbuild: {}", e);
                    std::process::exit(3);
                }
            }
            let pkg = format!("case_{}_{}", c.name, config);
            write_if_changed(
                &kdir.join("Cargo.toml"),
                &format!(
                    "[package]\nname = \"{}\"\nedition = \"2024\"\nversion = \"0.0.0\"\n\n[dependencies]\npilota = {{ path = \"/repo/pilota\" }}\ngencase = {{ path = \"{}/harness/gencase\" }}\nmonitors = {{ path = \"{}/harness/monitors\" }}\n",
                    pkg,
                    root.display(),
                    root.display()
                ),
            );
            write_if_changed(
                &kdir.join("src/main.rs"),
                &format!(
                    "#![allow(warnings)]\n#[cfg(not(miri))]\n#[global_allocator]\nstatic ALLOC: monitors::alloc::Counting = monitors::alloc::Counting;\n\ninclude!(\"{}\");\ninclude!(\"{}\");\n\nfn main() {{\n    gencase::main(registry(), {}, \"{}\", \"{}\", \"{}\");\n}}\n",
                    tmp_sub.display(),
                    cdir.join("registry.rs").display(),
                    c.seed,
                    c.profile,
                    config,
                    c.name
                ),
            );
            members.push(format!("{}/{}", c.name, config));
            built.push((c.name.clone(), config.to_string(), pkg));
        }
    }
    // thorough tier: case binaries (and their dep-info) of the seed-derived corpora of ANOTHER
    // seed (case_t<seed>_*, case_u<seed>_*) are removed: each is 25 MB and a run at several
    // seeds would otherwise keep them all. The fixed corpora are never touched.
    if tier == "thorough" {
        if let Ok(rd) = std::fs::read_dir(root.join("target/debug")) {
            let live: Vec<String> = built.iter().map(|b| b.2.clone()).collect();
            for e in rd.flatten() {
                let n = e.file_name().to_string_lossy().to_string();
                let stem = n.trim_end_matches(".d").to_string();
                let seed_derived = stem.starts_with("case_t") || stem.starts_with("case_u");
                if seed_derived && !live.contains(&stem) && e.path().is_file() {
                    let _ = std::fs::remove_file(e.path());
                }
            }
        }
    }
    // workspace
    let mut ws = String::from("[workspace]\nresolver = \"3\"\nmembers = [\n");
    for m in &members {
        ws.push_str(&format!("    \"{}\",\n", m));
    }
    ws.push_str("]\n\n[profile.dev]\nopt-level = 1\ndebug = 1\noverflow-checks = true\ndebug-assertions = true\nincremental = false\n\n[profile.dev.package.\"*\"]\nopt-level = 1\n");
    write_if_changed(&cases.join("Cargo.toml"), &ws);
    write_if_changed(&cases.join(".cargo/config.toml"), &format!("[net]\noffline = true\n\n[build]\ntarget-dir = \"{}/target\"\nrustflags = [\"--cfg\", \"pilota_verif\"]\n", root.display()));
    let lock = std::fs::read_to_string(root.join("harness/Cargo.lock")).unwrap_or_default();
    if !cases.join("Cargo.lock").exists() {
        let _ = std::fs::write(cases.join("Cargo.lock"), lock);
    }
    // build, dropping packages that do not compile (that is C14's observation, not ours).
    // Crates that enable a pilota feature are built by a separate cargo invocation so that
    // feature unification does not leak the feature into the other crates.
    for group in 0..2 {
    let mut attempts = 0;
    loop {
        attempts += 1;
        let mut cmd = Command::new("cargo");
        cmd.current_dir(&cases).arg("build").arg("--offline");
        let mut any = false;
        for (_, cfg, pkg) in &built {
            if cfg.contains("encdef") == (group == 1) {
                cmd.arg("-p").arg(pkg);
                any = true;
            }
        }
        if !any {
            break;
        }
        let out = cmd.output().expect("cargo");
        if out.status.success() {
            break;
        }
        let err = String::from_utf8_lossy(&out.stderr).to_string();
        let mut dropped = false;
        for line in err.lines() {
            if let Some(rest) = line.strip_prefix("error: could not compile `") {
                let name = rest.split('`').next().unwrap_or("");
                if let Some(p) = built.iter().position(|b| b.2 == name) {
                    eprintln!("case crate {} does not compile; dropped (C14 observation)", name);
                    let _ = std::fs::write(cases.join(format!("{}.build-error.txt", name)), &err);
                    rejected.push(name.to_string());
                    built.remove(p);
                    dropped = true;
                }
            }
        }
        if !dropped || attempts > 6 || built.is_empty() {
            eprintln!("{}", err.chars().rev().take(3000).collect::<String>().chars().rev().collect::<String>());
            std::process::exit(3);
        }
    }
    }
    for (c, k, pkg) in &built {
        println!("{} {} {}/target/debug/{}", c, k, root.display(), pkg);
    }
    for r in &rejected {
        println!("REJECTED {}", r);
    }
}
