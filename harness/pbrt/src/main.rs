//! Hand-written `pilota::prost::Message` implementations driven through the
//! same protobuf checks as the generated ones (C05, C06, C10, C18, C19). They
//! reach the parts of the protobuf runtime that pilota-build's output never
//! calls: the wrapper-type impls of `prost/types.rs`, `encode_packed` /
//! `encoded_len_packed` of every numeric kind, `btree_map`, the `string`
//! module (std String), `Vec<u8>` as bytes, `group`, and field numbers at the
//! key-length boundaries (15/16, 2047/2048, 2^28-1, 2^29-1).
#![allow(clippy::all)]

use std::collections::BTreeMap;

use gencase::pbchecks::{PTypeOps, pmain_schema, pops};
use pilota::prost::bytes::{Buf, BufMut};
use pilota::prost::encoding::{self as enc, DecodeContext, WireType};
use pilota::prost::{DecodeError, Message};
use pilota::{AHashMap, Bytes};
use refmodel::pb::{FKind, Label, PEnum, PField, PMsg, PSchema, PTy};

#[cfg(not(miri))]
#[global_allocator]
static ALLOC: monitors::alloc::Counting = monitors::alloc::Counting;

// ---------------------------------------------------------------------------

#[derive(Debug, Default, Clone, PartialEq)]
pub struct Leaf {
    pub a: i32,
    pub s: String,
    pub z: Vec<i32>,
}

impl Message for Leaf {
    fn encode_raw<B: BufMut>(&self, buf: &mut B) {
        if self.a != 0 {
            enc::int32::encode(1, &self.a, buf);
        }
        if !self.s.is_empty() {
            enc::string::encode(2, &self.s, buf);
        }
        enc::sint32::encode_packed(3, &self.z, buf);
    }
    fn merge_field<B: Buf>(&mut self, tag: u32, wire_type: WireType, buf: &mut B, ctx: DecodeContext) -> Result<(), DecodeError> {
        match tag {
            1 => enc::int32::merge(wire_type, &mut self.a, buf, ctx),
            2 => enc::string::merge(wire_type, &mut self.s, buf, ctx),
            3 => enc::sint32::merge_repeated(wire_type, &mut self.z, buf, ctx),
            _ => enc::skip_field(wire_type, tag, buf, ctx),
        }
    }
    fn encoded_len(&self) -> usize {
        (if self.a != 0 { enc::int32::encoded_len(1, &self.a) } else { 0 })
            + (if !self.s.is_empty() { enc::string::encoded_len(2, &self.s) } else { 0 })
            + enc::sint32::encoded_len_packed(3, &self.z)
    }
}

#[derive(Debug, Clone, PartialEq)]
pub enum Choice {
    Oa(i32),
    Ob(String),
    Oc(Leaf),
}

#[derive(Debug, Default, Clone, PartialEq)]
pub struct Kitchen {
    pub p_i32: Vec<i32>,
    pub p_i64: Vec<i64>,
    pub p_u32: Vec<u32>,
    pub p_u64: Vec<u64>,
    pub p_s32: Vec<i32>,
    pub p_s64: Vec<i64>,
    pub p_bool: Vec<bool>,
    pub p_fx32: Vec<u32>,
    pub p_fx64: Vec<u64>,
    pub p_sfx32: Vec<i32>,
    pub p_sfx64: Vec<i64>,
    pub p_float: Vec<f32>,
    pub p_double: Vec<f64>,
    pub s: String,
    pub rs: Vec<String>,
    pub v: Vec<u8>,
    pub rv: Vec<Vec<u8>>,
    pub bm1: BTreeMap<String, i32>,
    pub bm2: BTreeMap<i64, Leaf>,
    pub bm3: BTreeMap<bool, Vec<u8>>,
    pub hm: AHashMap<u32, f64>,
    pub rec: Option<Box<Kitchen>>,
    pub leaf: Option<Leaf>,
    pub leaves: Vec<Leaf>,
    pub e: i32,
    pub re: Vec<i32>,
    pub ch: Option<Choice>,
}

const T_BM3: u32 = 2047;
const T_HM: u32 = 2048;
const T_LEAF: u32 = 268_435_455;
const T_LEAVES: u32 = 536_870_911;

macro_rules! kitchen_packed {
    ($m:ident) => {
        $m!(1, p_i32, int32);
        $m!(2, p_i64, int64);
        $m!(3, p_u32, uint32);
        $m!(4, p_u64, uint64);
        $m!(5, p_s32, sint32);
        $m!(6, p_s64, sint64);
        $m!(7, p_bool, bool);
        $m!(8, p_fx32, fixed32);
        $m!(9, p_fx64, fixed64);
        $m!(10, p_sfx32, sfixed32);
        $m!(11, p_sfx64, sfixed64);
        $m!(12, p_float, float);
        $m!(13, p_double, double);
        $m!(22, re, int32);
    };
}

impl Message for Kitchen {
    fn encode_raw<B: BufMut>(&self, buf: &mut B) {
        macro_rules! e {
            ($tag:expr, $f:ident, $m:ident) => {
                enc::$m::encode_packed($tag, &self.$f, buf);
            };
        }
        kitchen_packed!(e);
        if !self.s.is_empty() {
            enc::string::encode(14, &self.s, buf);
        }
        enc::string::encode_repeated(15, &self.rs, buf);
        if !self.v.is_empty() {
            enc::bytes::encode(16, &self.v, buf);
        }
        enc::bytes::encode_repeated(17, &self.rv, buf);
        enc::btree_map::encode(enc::string::encode, enc::string::encoded_len, enc::int32::encode, enc::int32::encoded_len, 18, &self.bm1, buf);
        enc::btree_map::encode(enc::int64::encode, enc::int64::encoded_len, enc::message::encode, enc::message::encoded_len, 19, &self.bm2, buf);
        enc::btree_map::encode(enc::bool::encode, enc::bool::encoded_len, enc::bytes::encode, enc::bytes::encoded_len, T_BM3, &self.bm3, buf);
        enc::hash_map::encode(enc::uint32::encode, enc::uint32::encoded_len, enc::double::encode, enc::double::encoded_len, T_HM, &self.hm, buf);
        if let Some(r) = &self.rec {
            enc::message::encode(20, &**r, buf);
        }
        if let Some(l) = &self.leaf {
            enc::message::encode(T_LEAF, l, buf);
        }
        enc::message::encode_repeated(T_LEAVES, &self.leaves, buf);
        if self.e != 0 {
            enc::int32::encode(21, &self.e, buf);
        }
        match &self.ch {
            Some(Choice::Oa(x)) => enc::sfixed32::encode(30, x, buf),
            Some(Choice::Ob(x)) => enc::string::encode(31, x, buf),
            Some(Choice::Oc(x)) => enc::message::encode(32, x, buf),
            None => {}
        }
    }

    fn merge_field<B: Buf>(&mut self, tag: u32, wire_type: WireType, buf: &mut B, ctx: DecodeContext) -> Result<(), DecodeError> {
        macro_rules! m {
            ($tag:expr, $f:ident, $m:ident) => {
                if tag == $tag {
                    return enc::$m::merge_repeated(wire_type, &mut self.$f, buf, ctx);
                }
            };
        }
        kitchen_packed!(m);
        match tag {
            14 => enc::string::merge(wire_type, &mut self.s, buf, ctx),
            15 => enc::string::merge_repeated(wire_type, &mut self.rs, buf, ctx),
            16 => enc::bytes::merge(wire_type, &mut self.v, buf, ctx),
            17 => enc::bytes::merge_repeated(wire_type, &mut self.rv, buf, ctx),
            18 => enc::btree_map::merge(enc::string::merge, enc::int32::merge, &mut self.bm1, buf, ctx),
            19 => enc::btree_map::merge(enc::int64::merge, enc::message::merge, &mut self.bm2, buf, ctx),
            T_BM3 => enc::btree_map::merge(enc::bool::merge, enc::bytes::merge, &mut self.bm3, buf, ctx),
            T_HM => enc::hash_map::merge(enc::uint32::merge, enc::double::merge, &mut self.hm, buf, ctx),
            20 => {
                let r = self.rec.get_or_insert_with(Default::default);
                enc::message::merge(wire_type, &mut **r, buf, ctx)
            }
            T_LEAF => enc::message::merge(wire_type, self.leaf.get_or_insert_with(Default::default), buf, ctx),
            T_LEAVES => enc::message::merge_repeated(wire_type, &mut self.leaves, buf, ctx),
            21 => enc::int32::merge(wire_type, &mut self.e, buf, ctx),
            30 => {
                // a member of another kind is replaced; the same scalar member is overwritten
                let mut x = 0i32;
                enc::sfixed32::merge(wire_type, &mut x, buf, ctx)?;
                self.ch = Some(Choice::Oa(x));
                Ok(())
            }
            31 => {
                let mut x = String::new();
                enc::string::merge(wire_type, &mut x, buf, ctx)?;
                self.ch = Some(Choice::Ob(x));
                Ok(())
            }
            32 => {
                // the same message member merges field-wise
                if let Some(Choice::Oc(cur)) = &mut self.ch {
                    enc::message::merge(wire_type, cur, buf, ctx)
                } else {
                    let mut x = Leaf::default();
                    enc::message::merge(wire_type, &mut x, buf, ctx)?;
                    self.ch = Some(Choice::Oc(x));
                    Ok(())
                }
            }
            _ => enc::skip_field(wire_type, tag, buf, ctx),
        }
    }

    fn encoded_len(&self) -> usize {
        let mut n = 0usize;
        macro_rules! l {
            ($tag:expr, $f:ident, $m:ident) => {
                n += enc::$m::encoded_len_packed($tag, &self.$f);
            };
        }
        kitchen_packed!(l);
        if !self.s.is_empty() {
            n += enc::string::encoded_len(14, &self.s);
        }
        n += enc::string::encoded_len_repeated(15, &self.rs);
        if !self.v.is_empty() {
            n += enc::bytes::encoded_len(16, &self.v);
        }
        n += enc::bytes::encoded_len_repeated(17, &self.rv);
        n += enc::btree_map::encoded_len(enc::string::encoded_len, enc::int32::encoded_len, 18, &self.bm1);
        n += enc::btree_map::encoded_len(enc::int64::encoded_len, enc::message::encoded_len, 19, &self.bm2);
        n += enc::btree_map::encoded_len(enc::bool::encoded_len, enc::bytes::encoded_len, T_BM3, &self.bm3);
        n += enc::hash_map::encoded_len(enc::uint32::encoded_len, enc::double::encoded_len, T_HM, &self.hm);
        if let Some(r) = &self.rec {
            n += enc::message::encoded_len(20, &**r);
        }
        if let Some(l) = &self.leaf {
            n += enc::message::encoded_len(T_LEAF, l);
        }
        n += enc::message::encoded_len_repeated(T_LEAVES, &self.leaves);
        if self.e != 0 {
            n += enc::int32::encoded_len(21, &self.e);
        }
        n += match &self.ch {
            Some(Choice::Oa(x)) => enc::sfixed32::encoded_len(30, x),
            Some(Choice::Ob(x)) => enc::string::encoded_len(31, x),
            Some(Choice::Oc(x)) => enc::message::encoded_len(32, x),
            None => 0,
        };
        n
    }
}

/// the fixed recursive message of the depth probes, hand-written: recursion
/// through a singular field, a repeated field, an ordered map value and (not in
/// the schema: never produced by the value generator, reached by the depth
/// probes and by mutated inputs) a group and a repeated group
#[derive(Debug, Default, Clone, PartialEq)]
pub struct R9 {
    pub r: Option<Box<R9>>,
    pub rs: Vec<R9>,
    pub m: BTreeMap<i32, R9>,
    pub x: i32,
    pub s: String,
    pub g: Option<Box<R9>>,
    pub gs: Vec<R9>,
}

impl Message for R9 {
    fn encode_raw<B: BufMut>(&self, buf: &mut B) {
        if let Some(r) = &self.r {
            enc::message::encode(1, &**r, buf);
        }
        enc::message::encode_repeated(2, &self.rs, buf);
        enc::btree_map::encode(enc::int32::encode, enc::int32::encoded_len, enc::message::encode, enc::message::encoded_len, 3, &self.m, buf);
        if self.x != 0 {
            enc::int32::encode(4, &self.x, buf);
        }
        if !self.s.is_empty() {
            enc::string::encode(5, &self.s, buf);
        }
        if let Some(g) = &self.g {
            enc::group::encode(6, &**g, buf);
        }
        enc::group::encode_repeated(7, &self.gs, buf);
    }
    fn merge_field<B: Buf>(&mut self, tag: u32, wire_type: WireType, buf: &mut B, ctx: DecodeContext) -> Result<(), DecodeError> {
        match tag {
            1 => {
                let r = self.r.get_or_insert_with(Default::default);
                enc::message::merge(wire_type, &mut **r, buf, ctx)
            }
            2 => enc::message::merge_repeated(wire_type, &mut self.rs, buf, ctx),
            3 => enc::btree_map::merge(enc::int32::merge, enc::message::merge, &mut self.m, buf, ctx),
            4 => enc::int32::merge(wire_type, &mut self.x, buf, ctx),
            5 => enc::string::merge(wire_type, &mut self.s, buf, ctx),
            6 => {
                let g = self.g.get_or_insert_with(Default::default);
                enc::group::merge(tag, wire_type, &mut **g, buf, ctx)
            }
            7 => enc::group::merge_repeated(tag, wire_type, &mut self.gs, buf, ctx),
            _ => enc::skip_field(wire_type, tag, buf, ctx),
        }
    }
    fn encoded_len(&self) -> usize {
        self.r.as_ref().map_or(0, |r| enc::message::encoded_len(1, &**r))
            + enc::message::encoded_len_repeated(2, &self.rs)
            + enc::btree_map::encoded_len(enc::int32::encoded_len, enc::message::encoded_len, 3, &self.m)
            + (if self.x != 0 { enc::int32::encoded_len(4, &self.x) } else { 0 })
            + (if !self.s.is_empty() { enc::string::encoded_len(5, &self.s) } else { 0 })
            + self.g.as_ref().map_or(0, |g| enc::group::encoded_len(6, &**g))
            + enc::group::encoded_len_repeated(7, &self.gs)
    }
}

// ---------------------------------------------------------------------------

fn plain(num: u32, name: &str, l: Label, t: PTy) -> PField {
    PField { num, name: name.into(), kind: FKind::Plain(l, t), oneof: None }
}

fn schema() -> PSchema {
    let mut s = PSchema { proto3: true, package: None, msgs: vec![], enums: vec![], services: vec![] };
    s.enums.push(PEnum { name: "KE".into(), parent: None, values: vec![("KE_V0".into(), 0), ("KE_V1".into(), 7), ("KE_V2".into(), -3)] });
    let wrappers: [(&str, Option<PTy>); 11] = [
        ("BoolValue", Some(PTy::Bool)),
        ("UInt32Value", Some(PTy::UInt32)),
        ("UInt64Value", Some(PTy::UInt64)),
        ("Int32Value", Some(PTy::Int32)),
        ("Int64Value", Some(PTy::Int64)),
        ("FloatValue", Some(PTy::Float)),
        ("DoubleValue", Some(PTy::Double)),
        ("StringValue", Some(PTy::String)),
        ("BytesValue", Some(PTy::Bytes)),
        ("BytesValueB", Some(PTy::Bytes)),
        ("Empty", None),
    ];
    for (name, t) in wrappers {
        let fields = match t {
            Some(t) => vec![plain(1, "value", Label::Implicit, t)],
            None => vec![],
        };
        s.msgs.push(PMsg { name: name.into(), parent: None, fields, oneofs: vec![] });
    }
    let leaf = s.msgs.len();
    s.msgs.push(PMsg {
        name: "Leaf".into(),
        parent: None,
        fields: vec![plain(1, "a", Label::Implicit, PTy::Int32), plain(2, "s", Label::Implicit, PTy::String), plain(3, "z", Label::Repeated, PTy::SInt32)],
        oneofs: vec![],
    });
    let kitchen = s.msgs.len();
    let mut fields = vec![];
    let packed = [
        PTy::Int32, PTy::Int64, PTy::UInt32, PTy::UInt64, PTy::SInt32, PTy::SInt64, PTy::Bool, PTy::Fixed32, PTy::Fixed64, PTy::SFixed32, PTy::SFixed64,
        PTy::Float, PTy::Double,
    ];
    for (i, t) in packed.iter().enumerate() {
        fields.push(plain(i as u32 + 1, &format!("p{}", i + 1), Label::Repeated, t.clone()));
    }
    fields.push(plain(14, "s", Label::Implicit, PTy::String));
    fields.push(plain(15, "rs", Label::Repeated, PTy::String));
    fields.push(plain(16, "v", Label::Implicit, PTy::Bytes));
    fields.push(plain(17, "rv", Label::Repeated, PTy::Bytes));
    fields.push(PField { num: 18, name: "bm1".into(), kind: FKind::Map(PTy::String, PTy::Int32), oneof: None });
    fields.push(PField { num: 19, name: "bm2".into(), kind: FKind::Map(PTy::Int64, PTy::Msg(leaf)), oneof: None });
    fields.push(PField { num: T_BM3, name: "bm3".into(), kind: FKind::Map(PTy::Bool, PTy::Bytes), oneof: None });
    fields.push(PField { num: T_HM, name: "hm".into(), kind: FKind::Map(PTy::UInt32, PTy::Double), oneof: None });
    fields.push(plain(20, "rec", Label::Implicit, PTy::Msg(kitchen)));
    fields.push(plain(T_LEAF, "leaf", Label::Implicit, PTy::Msg(leaf)));
    fields.push(plain(T_LEAVES, "leaves", Label::Repeated, PTy::Msg(leaf)));
    fields.push(plain(21, "e", Label::Implicit, PTy::Enum(0)));
    fields.push(plain(22, "re", Label::Repeated, PTy::Enum(0)));
    fields.push(PField { num: 30, name: "oa".into(), kind: FKind::Plain(Label::Implicit, PTy::SFixed32), oneof: Some(0) });
    fields.push(PField { num: 31, name: "ob".into(), kind: FKind::Plain(Label::Implicit, PTy::String), oneof: Some(0) });
    fields.push(PField { num: 32, name: "oc".into(), kind: FKind::Plain(Label::Implicit, PTy::Msg(leaf)), oneof: Some(0) });
    s.msgs.push(PMsg { name: "Kitchen".into(), parent: None, fields, oneofs: vec!["ch".into()] });
    let r = s.msgs.len();
    s.msgs.push(PMsg {
        name: "R9".into(),
        parent: None,
        fields: vec![
            plain(1, "r", Label::Implicit, PTy::Msg(r)),
            plain(2, "rs", Label::Repeated, PTy::Msg(r)),
            PField { num: 3, name: "m".into(), kind: FKind::Map(PTy::Int32, PTy::Msg(r)), oneof: None },
            plain(4, "x", Label::Implicit, PTy::Int32),
            plain(5, "s", Label::Implicit, PTy::String),
        ],
        oneofs: vec![],
    });
    s
}

fn registry() -> Vec<PTypeOps> {
    vec![
        pops::<bool>(0),
        pops::<u32>(1),
        pops::<u64>(2),
        pops::<i32>(3),
        pops::<i64>(4),
        pops::<f32>(5),
        pops::<f64>(6),
        pops::<String>(7),
        pops::<Vec<u8>>(8),
        pops::<Bytes>(9),
        pops::<()>(10),
        pops::<Leaf>(11),
        pops::<Kitchen>(12),
        pops::<R9>(13),
    ]
}

fn main() {
    pmain_schema(registry(), schema(), "hand", "r0");
}
