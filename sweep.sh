#!/usr/bin/env bash
# usage: sweep.sh <tier> <seed>...   — runs every registered check at the given seeds, prints one line per run
TIER="${1:-quick}"; shift
cd "$(dirname "${BASH_SOURCE[0]}")"
[ -x target/debug/rtcheck ] || ./setup.sh >/dev/null 2>&1
for seed in "$@"; do
  for id in C01 C02 C03 C04 C05 C06 C07 C08 C09 C10 C11 C12 C13 C14 C15 C16 C17 C18 C19 C20; do
    t0=$(date +%s)
    out=$(VERIF_SEED=$seed ./check $id --tier "$TIER" 2>&1); rc=$?
    t1=$(date +%s)
    echo "seed=$seed $id rc=$rc $((t1-t0))s viol=$(echo "$out" | grep -c '^VIOLATION') :: $(echo "$out" | tail -1 | cut -c1-140)"
    echo "$out" | grep '^VIOLATION\|^INCONCLUSIVE' | cut -c1-300 | head -5
  done
done
