#!/usr/bin/env bash
# Re-evaluates every sub-agent change under seeded/agent-* with the checks recorded in its meta.json
cd "$(dirname "${BASH_SOURCE[0]}")"
for d in seeded/agent-*; do
  prop=$(jq -r .property $d/meta.json); needs=$(jq -r .needs $d/meta.json)
  checks=$(jq -r '[.results[].check] | unique | join(" ")' $d/meta.json)
  echo "== $d"; ./seed_eval.py "$d" "$prop" "$needs" $checks 2>&1 | tail -1
done
