#!/usr/bin/env bash
# Re-evaluates every reverse-of-a-fix patch under seeded/revert-* with the checks expected to catch it
# (quick tier), writing seeded/<id>/meta.json. Applies each patch to /repo and restores /repo afterwards.
cd "$(dirname "${BASH_SOURCE[0]}")"
run() { d="$1"; prop="$2"; needs="$3"; shift 3; echo "== $d"; ./seed_eval.py "seeded/$d" "$prop" "$needs" "$@" 2>&1 | tail -1; }
run revert-A-compact-double C01 "compact protocol, any double value: writer emits big-endian, reader/spec little-endian" C01 C03
run revert-B-struct-end C01 "compact protocol, a field following a nested struct: read_struct_end does not restore the enclosing field-id counter" C01 C03 C07
run revert-C-delta-i16 C01 "compact protocol, field ids whose difference overflows i16 (32767 then -32768)" C01 C04
run revert-D-compact-skip C07 "compact protocol, skipping an unknown field of a varint-coded or bool type" C07 C03
run revert-E-async-uuid C07 "async skip of an unknown uuid field" C07
run revert-F-split-to C09 "string/binary length prefix larger than the remaining input" C09
run revert-G-async-prealloc C09 "async readers: vec![0; len] from the wire length" C09
run revert-H-delta-read-overflow C09 "compact reader: short-form field delta overflowing i16" C09
run revert-K-parser-word-boundary C15 "identifier that begins with true/false/required/optional" C15
run revert-L-parser-blank-before-sep C15 "whitespace/comment between an item and its trailing separator" C15
run revert-M-parser-field-id C16 "field id with more than 10 digits" C16
run revert-N-compact-input-bool-len C02 "generated decode of a struct with a bool field on compact" C02 C09
run revert-O-compact-marker-asserts C02 "generated union decode with a bool variant on compact" C02 C09
run revert-P-container-size-check C09 "container count larger than the remaining input" C09
run revert-Q-uuid-element-deref C14 "list<uuid>/set<uuid>/map with uuid" C14
run revert-R-nested-map-literal C14 "map literal nested inside a list/map literal" C14
run revert-S-const-keyword-escape C14 "constant named with a Rust keyword, change_case(false)" C14
run revert-T-int-literal-orderedf64 C14 "integer literal for a double set element / map key" C14
run revert-U-split-root-path C14 "split output of a .proto without package" C14
run revert-V-sint-codec C06 "sint32/sint64 fields" C06
run revert-W-proto-nested-order C17 "message with two or more nested messages" C17
run revert-X-typedef-bool-size C04 "struct/union field typed as a typedef (chain) of bool, compact protocol" C04
run revert-Y-struct-literal-keep C14 "struct-literal default for a struct built with keep_unknown_fields" C14
run revert-Z-struct-literal-box C14 "struct-literal default naming a self-referential (boxed) field" C14
run revert-ZA-const-to-typedef C14 "constant as default of a field typed by a typedef" C14 C20
run revert-ZB-default-path C14 "struct literal default with an unnamed non-optional inner field, IDL struct named Default" C14
run revert-ZC-name-collision-fixpoint C14 "three names pairwise close after case conversion (aB, AB, Ab)" C14
run revert-ZD-set-constant C14 "non-empty set constant" C14
run revert-ZE-string-literal-vec C14 "string literal default on a binary field with pilota.rust_type = vec" C14
run revert-ZF-const-to-string C14 "string constant default on a field with pilota.rust_type = string / binary" C14
run revert-ZG-proto-absolute-path C14 "nested protobuf message with the simple name of another message, referring to it by its absolute name" C05 C06 C14
run revert-ZH-hashed-set-key C14 "inline set or map as set element / map key (map<set<i32>, V>)" C14
