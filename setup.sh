#!/usr/bin/env bash
# setup_cmd: offline build of the harness from files on disk only.
set -eu
ROOT="$(cd "$(dirname "${BASH_SOURCE[0]}")" && pwd)"
export CARGO_NET_OFFLINE=true
mkdir -p "$ROOT/work/tmp" "$ROOT/evidence"
cd "$ROOT/harness"
cargo build --offline --workspace 2>&1 | tail -3
